SPECIFICATION Spec
CONSTANTS
  Procs = {1, 2, 3}
  Fields = {1, 2}
  Protocol = "mutex"
INVARIANTS NoRace OneEntry LocksSound
CHECK_DEADLOCK FALSE
