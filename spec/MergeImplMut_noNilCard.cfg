SPECIFICATION Spec
CONSTANTS
  NT = 2
  ND = 2
  NS = 2
  Mut = "noNilCard"
INVARIANT MergeIsRebuild
CHECK_DEADLOCK FALSE
