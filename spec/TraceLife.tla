------------------------------ MODULE TraceLife ------------------------------
(***************************************************************************)
(* Validates a lifecycle trace recorded from the implementation against    *)
(* Zapx (DESIGN 3.3).  Every line must be explained by a Zapx action; the   *)
(* complete observation logged with the line is compared with the          *)
(* observation functions of ZapData.  Mismatches are printed (all of them, *)
(* so that known findings and new violations can be told apart) and the    *)
(* trace is accepted when every line has been consumed.                    *)
(***************************************************************************)
EXTENDS Zapx, ZapLayout

Trace == ndJsonDeserialize(IOEnv.TRACE)

VARIABLES l, nbad

traceVars == <<segs, files, lcm, l, nbad>>

Ev == Trace[l]
IsEv(e) == l <= Len(Trace) /\ Trace[l].ev = e

\* prints one line per mismatching step; returns the number of mismatches
Report(prov, bad) ==
  IF bad = {} THEN 0
  ELSE IF PrintT(<<"MISMATCH", ToJson([l |-> l, prov |-> prov, bad |-> SetToSeq(bad)])>>) THEN Cardinality(bad) ELSE 0

Step(prov, bad) == l' = l + 1 /\ nbad' = nbad + Report(prov, bad)

IfBad(cond, x) == IF cond THEN {x} ELSE {}

----------------------------------------------------------------------------
(* comparison of a logged observation with a content *)

\* an aspect whose observation was cut short by an error (reported separately by CheckErrs)
Errd(o, asp) == \E e \in RangeOf(o.errs) : e.asp = asp

CheckMeta(c, o) ==
  IfBad(o.count # Count(c), <<"count", o.count>>)
  \cup IfBad(o.fields # c.fields, <<"fields", o.fields>>)
  \* the visitable doc-value fields: for a built segment the fields indexed with doc values; for a merged one
  \* those of its inputs that had a dictionary for the field (ZapData: dvx)
  \* (the output of a merge without survivors - see the known finding on its field table - may list any subset)
  \cup IfBad(~(/\ IF c.prov = "merged" /\ Count(c) = 0 THEN RangeOf(o.dvf) \subseteq c.dvMax ELSE RangeOf(o.dvf) = c.dvx
               /\ Cardinality(RangeOf(o.dvf)) = Len(o.dvf)), <<"dvf", o.dvf>>)

CheckDicts(c, o) ==
  { <<"dict", od.f>> : od \in { od \in RangeOf(o.dicts) :
        LET exp == DictOf(c, od.f) ts == TermsOf(c, od.f) IN
        \/ od.ents # exp
        \/ od.card # Len(exp)
        \/ \E h \in RangeOf(od.has) : h.r # (h.k \in ts) } }
  \cup { <<IF op.pre THEN "posts-reuse" ELSE "posts", op.f, op.t>> : op \in { op \in RangeOf(o.posts) :
        LET exp == PostingsOf(c, op.f, op.t) IN op.hits # exp \/ op.n # Len(exp) } }
  \cup (IF Errd(o, "dicts") THEN {} ELSE
        { <<"posts-unprobed", ft>> : ft \in { x \in PairsOf(c) : x[1] \notin RangeOf(o.sampled) } \ { <<op.f, op.t>> : op \in { x \in RangeOf(o.posts) : ~x.pre } } }
        \cup { <<"dict-unprobed", f>> : f \in RangeOf(c.fields) \ { od.f : od \in RangeOf(o.dicts) } })

MinI(a, b) == IF a < b THEN a ELSE b

CheckStored(c, o) ==
  { <<"stored", os.d>> : os \in { os \in RangeOf(o.stored) :
        LET exp == StoredOf(c, os.d) IN
        \/ os.vals # exp
        \/ os.id # DocIDOf(c, os.d)
        \/ \E k \in 1..Len(os.stop) : os.stop[k] # MinI(k, Len(exp)) } }
  \cup (IF Errd(o, "stored") THEN {} ELSE
        { <<"stored-unprobed", d>> : d \in (0..(Count(c) + 1)) \ { os.d : os \in RangeOf(o.stored) } })

CheckDocNums(c, o) ==
  { <<"docnums", q.ids>> : q \in { q \in RangeOf(o.docnums) : q.r # SortInts(DocNumbersOf(c, RangeOf(q.ids))) } }

CheckDv(c, o) ==
  { <<"dv", q.d, q.fs>> : q \in { q \in RangeOf(o.dv) :
        LET exp == UNION { { [f |-> f, t |-> t] : t \in DvOf(c, q.d, f) } : f \in RangeOf(q.fs) } IN
        RangeOf(q.r) # exp \/ Len(q.r) # Cardinality(exp) } }
  \cup (LET covered == UNION { { <<q.d, f>> : f \in RangeOf(q.fs) } : q \in RangeOf(o.dv) }
            needed  == UNION { { <<i - 1, f>> : f \in DOMAIN c.docs[i].dv } : i \in 1..Len(c.docs) }
        IN  IF Errd(o, "dv") THEN {} ELSE { <<"dv-unprobed", x>> : x \in needed \ covered })

CheckThes(c, o) ==
  { <<"thes", ot.name>> : ot \in { ot \in RangeOf(o.thes) :
        LET ts == ThesTermsOf(c, ot.name) IN
        \/ ot.terms # SortBytes(ts)
        \/ \E h \in RangeOf(ot.has) : h.r # (h.k \in ts)
        \/ \E q \in RangeOf(ot.syns) :
             LET exp == SynonymsOf(c, ot.name, q.t, RangeOf(q.ex)) IN
             RangeOf(q.r) # exp \/ Len(q.r) # Cardinality(exp) } }
  \cup (IF Errd(o, "thes") THEN {} ELSE { <<"thes-unprobed", th>> : th \in ThesNamesOf(c) \ { ot.name : ot \in RangeOf(o.thes) } })

CheckVec(c, o) ==
  { <<"vec", q.f, q.q, q.k, q.ex, q.filter, q.elig, q.r>> : q \in { q \in RangeOf(o.vec) :
        \/ Len(q.r) # Cardinality(RangeOf(q.r))
        \/ ~TopKOK(c, q.f, q.q, q.k, RangeOf(q.ex), q.filter, RangeOf(q.elig), RangeOf(q.r)) } }
  \cup (IF o.vec = <<>> \/ Errd(o, "vec") THEN {} ELSE
        { <<"vstats", f>> : f \in { f \in VecFieldsOf(c) \cup { s.f : s \in RangeOf(o.vstats) } :
              LET got == { s.n : s \in { x \in RangeOf(o.vstats) : x.f = f } } IN
              IF NumVectors(c, f) = 0 THEN got # {} ELSE got # {NumVectors(c, f)} } }
        \cup { <<"vec-unprobed", f>> : f \in VecFieldsOf(c) \ { q.f : q \in RangeOf(o.vec) } })

\* random Next/Advance sequences: each call returns the least non-excluded hit at or after its target,
\* with the details its flag class asks for, then nil (PostIter's law on the content's postings)
CheckIter(c, o) ==
  { <<"iter", q.f, q.t, q.ex, q.cls>> : q \in { q \in RangeOf(o.iter) :
      LET ex   == RangeOf(q.ex)
          hits == SelectSeq(PostingsOf(c, q.f, q.t), LAMBDA h : h.d \notin ex)
          cut(h) == IF q.cls = 2 THEN h
                    ELSE IF q.cls = 1 THEN [h EXCEPT !.locs = <<>>]
                    ELSE [d |-> h.d, fr |-> 0, nm |-> 0, locs |-> <<>>]
          \* index of the first hit with document number >= t, or 0
          firstAt(t) == LET S == { i \in 1..Len(hits) : hits[i].d >= t } IN IF S = {} THEN 0 ELSE MinOf(S)
          RECURSIVE Ok(_, _)
          Ok(i, last) ==
            IF i > Len(q.calls) THEN TRUE
            ELSE LET cl == q.calls[i]
                     tgt == IF cl.op = "next" THEN last + 1 ELSE cl.t
                     k == firstAt(tgt)
                 IN  IF k = 0 THEN cl.nil /\ i = Len(q.calls)
                     ELSE ~cl.nil /\ cl.hit = cut(hits[k]) /\ Ok(i + 1, hits[k].d)
      IN  q.n # Len(hits) \/ ~Ok(1, -1) } }

CheckErrs(o) == { <<"err", e.asp, e.msg>> : e \in RangeOf(o.errs) }

CheckObs(c, o) ==
  CheckMeta(c, o) \cup CheckDicts(c, o) \cup CheckStored(c, o) \cup CheckDocNums(c, o)
  \cup CheckDv(c, o) \cup CheckThes(c, o) \cup CheckVec(c, o) \cup CheckIter(c, o) \cup CheckErrs(o)

----------------------------------------------------------------------------
(* trace actions *)

TraceInit == LifeInit /\ l = 1 /\ nbad = 0

TrReset == IsEv("reset") /\ Reset(Ev.lcm) /\ Step("reset", {})

TrBuild ==
  /\ IsEv("build")
  /\ Build(Ev.sid, Ev.batch, Ev.mode)
  /\ Step("built", CheckObs(segs'[Ev.sid].c, Ev.obs))

\* a failed build is explained only by a rejected batch or an injected engine failure
TrBuildFail ==
  /\ IsEv("buildfail")
  /\ BuildRejected
  /\ Step("buildfail", IfBad(~(Ev.rejected \/ Ev.engine) \/ Ev.panic # "", <<"unexplained-failure", Ev.panic>>))

CheckFooter(c, foot) ==
  IfBad(foot.n # Count(c), <<"footer-numdocs", foot.n>>)
  \cup IfBad(foot.mode # c.mode, <<"footer-chunkmode", foot.mode>>)
  \cup IfBad(foot.ver # 16, <<"footer-version", foot.ver>>)

\* independent decoding of a small file by the layout specification (enabled by the environment: C09, C04)
LayoutBad(c, bytes, path) ==
  IF IOEnv.LAYOUT = "1" /\ bytes # <<>> THEN DiffLayout(c, bytes, path) ELSE {}

TrPersist ==
  /\ IsEv("persist")
  /\ IF Ev.err THEN UNCHANGED <<segs, files, lcm>> ELSE Persist(Ev.sid, Ev.file)
  /\ LET PersistBad ==
           IF Ev.err THEN {<<"persist-error">>} \cup IfBad(Ev.stray # 0, <<"stray-files", Ev.stray>>)
           ELSE IfBad(~Ev.exists, <<"no-file">>)
                \cup IfBad(~Ev.same \/ Ev.wn # Ev.flen, <<"writeto-differs">>)
                \cup IfBad(~Ev.crcok, <<"crc">>)
                \cup IfBad(Ev.stray # 0, <<"stray-files", Ev.stray>>)
                \cup (IF Ev.exists THEN CheckFooter(segs[Ev.sid].c, Ev.foot) ELSE {})
     IN  nbad' = nbad + Report("persist", PersistBad)
                      + Report("layout", IF Ev.err THEN {} ELSE LayoutBad(segs[Ev.sid].c, Ev.bytes, Ev.path))
  /\ l' = l + 1

TrOpen ==
  /\ IsEv("open")
  /\ IF Ev.err # "" THEN UNCHANGED <<segs, files, lcm>>
                          /\ Step(IF Ev.file \in DOMAIN files THEN "open-" \o files[Ev.file].c.prov ELSE "open", {<<"open-error", Ev.err>>})
     ELSE /\ Open(Ev.sid, Ev.file)
          /\ Step("opened-" \o files[Ev.file].c.prov \o
                    (IF files[Ev.file].c.prov = "merged" /\ Count(files[Ev.file].c) = 0 THEN "-zero" ELSE ""),
                  CheckObs(files[Ev.file].c, Ev.obs) \cup CheckFooter(files[Ev.file].c, Ev.foot))

DropSet(d) == RangeOf(d.ds)

TrMerge ==
  /\ IsEv("merge")
  /\ LET Ds == [i \in 1..Len(Ev.drops) |-> DropSet(Ev.drops[i])]
         cs == [i \in 1..Len(Ev.ins) |-> segs[Ev.ins[i]].c]
         zero == SumSeq([i \in 1..Len(cs) |-> NumSurvivors(cs[i], Ds[i])]) = 0
         tag == IF zero THEN "merge-zero" ELSE "merge"
     IN
     IF Ev.err # "" \/ Ev.panic # ""
     THEN UNCHANGED <<segs, files, lcm>>
          /\ Step(tag, IfBad(~Ev.engine \/ Ev.panic # "", <<"merge-error", Ev.err, Ev.panic>>) \cup IfBad(Ev.exists \/ Ev.stray # 0, <<"file-left", Ev.exists, Ev.stray>>))
     ELSE /\ Merge(Ev.file, Ev.ins, Ds, Ev.mode)
          /\ l' = l + 1
          /\ nbad' = nbad + Report(tag, IfBad(Ev.maps # MergedMaps(cs, Ds), <<"maps", Ev.maps>>)
                                         \cup IfBad(~Ev.exists \/ Ev.size # Ev.flen, <<"size", Ev.size, Ev.flen>>)
                                         \cup IfBad(Ev.stray # 0, <<"stray-files", Ev.stray>>))
                           + Report("layout", LayoutBad(MergeResult(Ev.ins, Ds, Ev.mode), Ev.bytes, Ev.path))

\* random doc-value visits with one reused visit state (also across segments)
TrDvWalk ==
  /\ IsEv("dvwalk")
  /\ UNCHANGED <<segs, files, lcm>>
  /\ LET bad(v) == LET c   == segs[v.sid].c
                       exp == UNION { { [f |-> f, t |-> t] : t \in DvOf(c, v.d, f) } : f \in RangeOf(Ev.fs) }
                   IN  RangeOf(v.r) # exp \/ Len(v.r) # Cardinality(exp)
         badOf(prov) == { <<"dv", v.sid, v.d>> : v \in { v \in RangeOf(Ev.visits) : segs[v.sid].c.prov = prov /\ bad(v) } }
     IN  /\ l' = l + 1
         /\ nbad' = nbad + Report("dvwalk-built", badOf("built") \cup IfBad(Ev.err # "", <<"err", "dv", Ev.err>>))
                          + Report("dvwalk-merged", badOf("merged"))

\* a complete observation made by one of several goroutines reading the segment at the same time:
\* reads commute, so each must equal the sequential answer
TrObs ==
  /\ IsEv("obs")
  /\ UNCHANGED <<segs, files, lcm>>
  /\ Step("concurrent", CheckObs(segs[Ev.sid].c, Ev.obs))

\* the n-th call of an engine operation was made to fail during a build or a merge: the operation
\* reports an error, leaves no file and releases every native index (OutFile: EngineSurfaces, ErrMeansNoFile)
TrEngFail ==
  /\ IsEv("engfail")
  /\ UNCHANGED <<segs, files, lcm>>
  /\ Step("engfail", IfBad(~Ev.err, <<"engine-failure-swallowed", Ev.kind, Ev.op, Ev.n, Ev.class>>)
                      \cup IfBad(Ev.exists, <<"file-left-after-engine-failure", Ev.kind, Ev.op, Ev.n, Ev.class>>)
                      \cup IfBad(Ev.leaked # 0, <<"native-index-leaked", Ev.kind, Ev.op, Ev.n, Ev.leaked, Ev.class>>))

\* frozen corpus: the inputs that produced a frozen file are replayed in the specification only
\* (no call of the current code, nothing to compare); the files are then opened by the current code
TrFrozen ==
  \/ IsEv("fbuild") /\ Build(Ev.sid, Ev.batch, Ev.mode) /\ Step("frozen", {})
  \/ IsEv("fpersist") /\ Persist(Ev.sid, Ev.file) /\ Step("frozen", {})
  \/ IsEv("fopen") /\ Open(Ev.sid, Ev.file) /\ Step("frozen", {})
  \/ IsEv("fmerge") /\ Merge(Ev.file, Ev.ins, [i \in 1..Len(Ev.drops) |-> DropSet(Ev.drops[i])], Ev.mode) /\ Step("frozen", {})

\* the batch of a built segment, built once more alone on emptied pools, has the same image: what is built is
\* determined by the batch and the chunk mode (C10); the harness compares the sizes (the bytes may differ in the
\* order of the section entries of a field's table, which follows a map iteration)
TrSameBytes ==
  /\ IsEv("samebytes")
  /\ UNCHANGED <<segs, files, lcm>>
  /\ Step("built", IfBad(~Ev.same, <<"image-size-depends-on-history", Ev.sid, Ev.flen, Ev.rlen>>))

\* informational records of the harness (pool residue, garbage collection): no specification step
TrNote == IsEv("note") /\ UNCHANGED <<segs, files, lcm>> /\ Step("note", {})

TrClose ==
  /\ IsEv("close")
  /\ Close(Ev.sid)
  /\ Step("close", IfBad(Ev.err # "", <<"close-error", Ev.err>>))

TrEnd == l = Len(Trace) + 1 /\ l' = l + 1 /\ PrintT(<<"ACCEPTED", Len(Trace), nbad>>) /\ UNCHANGED <<segs, files, lcm, nbad>>

TraceNext == TrFrozen \/ TrEngFail \/ TrSameBytes \/ TrObs \/ TrNote \/ TrDvWalk \/ TrReset \/ TrBuild \/ TrBuildFail \/ TrPersist \/ TrOpen \/ TrMerge \/ TrClose \/ TrEnd

TraceSpec == TraceInit /\ [][TraceNext]_traceVars

\* high-water mark of consumed lines (for the rejection report)
Progress == TLCSet(1, l)
Rejected == TLCGet(1) <= Len(Trace) => PrintT(<<"REJECTED-AT", TLCGet(1)>>)
=============================================================================
