SPECIFICATION Spec
CONSTANTS
  NF = 3
  NS = 3
  MaxDocs = 2
  Mut = "liveOnly"
INVARIANT NamesKept
CHECK_DEADLOCK FALSE
