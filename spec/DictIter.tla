------------------------------ MODULE DictIter ------------------------------
(***************************************************************************)
(* Dictionary enumeration (DESIGN 4 C08).  Declarative law: iterating a    *)
(* field's dictionary with an automaton accepting the set A and a key      *)
(* range [start, end) yields exactly the terms in TS \cap A within the     *)
(* range, ascending, each with the size of its postings list; Contains     *)
(* and Cardinality agree with TS.                                          *)
(*                                                                         *)
(* The operational part models the iterator's reused scratch postings list *)
(* (single-hit state carried from entry to entry); TLC checks that the     *)
(* repaired design (Repaired = TRUE) reports true counts for every mixture *)
(* of single-hit and general entries (EnumExact), and finds the            *)
(* counterexample of the original design with Repaired = FALSE.            *)
(***************************************************************************)
EXTENDS ZapCatalog, Json

CONSTANTS MaxTerms,   \* terms per dictionary
          NCat,       \* catalogue terms in use (<= 6)
          Repaired,
          Emit

VARIABLES TS, A, lo, hi, phase

vars == <<TS, A, lo, hi, phase>>

\* catalogue in ascending byte order: "", "a", "a\0", "ab", "b", "e-acute"
Cat == << <<>>, <<97>>, <<97, 0>>, <<97, 98>>, <<98>>, <<195, 169>> >>
CatIdx == 1..NCat
\* number of documents per term, and the frequency in each
Cnt == <<1, 2, 3, 1, 1, 2>>
Frq == <<1, 1, 1, 0, 2, 1>>      \* term 4 has frequency 0 (no freq/norm stored): one document, yet not single-hit
\* range bounds: the terms plus keys between, below and above them
Bounds == RangeOf(Cat) \cup { <<48>>, <<97, 97>>, <<99>>, <<122, 122>> }
NoBound == <<255, 255, 255>>       \* stands for "bound absent" (nil)

\* a term is encoded single-hit by a merge iff one document, frequency 1, no locations
OneHit(i) == Cnt[i] = 1 /\ Frq[i] = 1

fD == <<102>>
DocN(n, S) ==
  Doc(<<100, 48 + n>>,
      << IdF(<<100, 48 + n>>),
         Txt(fD, FALSE, FALSE, 116, <<>>, <<>>, 1 + n,
             LET is == SortInts({ i \in S : n < Cnt[i] }) IN [k \in 1..Len(is) |-> Tk(Cat[is[k]], Frq[is[k]], <<>>)]) >>,
      <<>>)
BatchFor(S) == [n \in 1..3 |-> DocN(n - 1, S)]

InRange(t) == (lo = NoBound \/ LexLeq(lo, t)) /\ (hi = NoBound \/ LexLess(t, hi))

Selected == SortInts({ i \in TS : i \in A /\ InRange(Cat[i]) })

\* declarative answer
Entries == [k \in 1..Len(Selected) |-> [t |-> Cat[Selected[k]], n |-> Cnt[Selected[k]]]]
\* ... and for the merge of two independently built segments with this dictionary (no deletions)
Entries2 == [k \in 1..Len(Selected) |-> [t |-> Cat[Selected[k]], n |-> 2 * Cnt[Selected[k]]]]

\* ... and for the merge of the segment alone with the documents dr deleted (built under chunk mode 2, so that the
\* three documents span two chunks and document 1 is the last of the first chunk): a term whose documents are
\* all deleted disappears, one left with a single frequency-1 hit becomes single-hit
EntriesDrop(dr) ==
  LET left(i) == Cardinality((0..(Cnt[i] - 1)) \ dr)
      sel == SelectSeq(Selected, LAMBDA i : left(i) > 0)
  IN  [k \in 1..Len(sel) |-> [t |-> Cat[sel[k]], n |-> left(sel[k])]]

\* operational counts on a merged segment: the scratch list's single-hit bits persist unless cleared
ImplCounts ==
  LET step(acc, i) ==
        IF OneHit(i) THEN [bits |-> 1, out |-> Append(acc.out, 1)]
        ELSE LET bits == IF Repaired THEN 0 ELSE acc.bits
             IN  [bits |-> bits, out |-> Append(acc.out, IF bits # 0 THEN 1 ELSE Cnt[i])]
  IN  FoldLeft(step, [bits |-> 0, out |-> <<>>], Selected).out

Init ==
  /\ TS \in { S \in SUBSET CatIdx : Cardinality(S) <= MaxTerms }
  /\ A = {} /\ lo = NoBound /\ hi = NoBound /\ phase = "dict"
  /\ Emit => PrintT(<<"DICT", ToJson([ts |-> SortInts(TS), batch |-> BatchFor(TS),
                                       terms |-> [k \in 1..Len(SortInts(TS)) |-> Cat[SortInts(TS)[k]]],
                                       cat |-> [i \in CatIdx |-> Cat[i]]])>>)

Query ==
  /\ phase = "dict"
  \* an empty end key is not a bound (Go/vellum read a zero-length slice as "absent"): not in the domain
  /\ \E a \in SUBSET TS, s \in Bounds \cup {NoBound}, e \in (Bounds \ {<<>>}) \cup {NoBound} :
       /\ (s # NoBound /\ e # NoBound) => LexLess(s, e)
       /\ A' = a /\ lo' = s /\ hi' = e
  /\ phase' = "query" /\ UNCHANGED TS

Spec == Init /\ [][Query]_vars

\* emitted from a state constraint so that each query state is printed once
EmitQuery ==
  (Emit /\ phase = "query") =>
     PrintT(<<"WALK", ToJson([ts |-> SortInts(TS), acc |-> SortInts(A),
                               lo |-> IF lo = NoBound THEN [nil |-> TRUE, k |-> <<>>] ELSE [nil |-> FALSE, k |-> lo],
                               hi |-> IF hi = NoBound THEN [nil |-> TRUE, k |-> <<>>] ELSE [nil |-> FALSE, k |-> hi],
                               ents |-> Entries, ents2 |-> Entries2, entsd0 |-> EntriesDrop({0}), entsd1 |-> EntriesDrop({1})])>>)

EnumExact == phase = "query" => ImplCounts = [k \in 1..Len(Entries) |-> Entries[k].n]

Ascending == \A k \in 1..(Len(Entries) - 1) : LexLess(Entries[k].t, Entries[k + 1].t)
=============================================================================
