---------------------------- MODULE PostIterImpl ----------------------------
(***************************************************************************)
(* Operational model of the postings iterator (posting.go: iterator,       *)
(* nextDocNumAtOrAfter, nextDocNumAtOrAfterClean, currChunkNext,           *)
(* readFreqNormHasLocs / location reading), transcribed step by step       *)
(* (DESIGN 2.4, Appendix D), and checked by TLC to refine the declarative  *)
(* iterator of PostIter.tla: for every postings set P, exclusion set E,    *)
(* set HL of hits that carry locations, chunk size, detail flags and every *)
(* call sequence, each call returns the least non-excluded hit at or after *)
(* the target AND the freq/norm and location entries it reads are those of *)
(* that very document (the cursors all / Actual / chunk streams stay in    *)
(* lock step).                                                             *)
(*                                                                         *)
(* The two roaring cursors are indexes into the sorted sequences of P and  *)
(* of P \ E; a chunk's freq/norm stream is the sequence of the documents   *)
(* of P in that chunk, its location stream the subsequence with locations; *)
(* a "read" returns the document whose entry is under the cursor.          *)
(***************************************************************************)
EXTENDS Integers, Sequences, FiniteSets, TLC

CONSTANTS N, L, ChunkSizes,
          Mut   \* "none": the code as it is; "gt" / "same1": deliberately wrong variants that TLC must refute (non-vacuity)

SortSet(S) == LET RECURSIVE R(_) R(T) == IF T = {} THEN <<>> ELSE LET m == CHOOSE x \in T : \A y \in T : x <= y IN <<m>> \o R(T \ {m}) IN R(S)

\* instance: P, E, HL, cs, fn (freq/norm wanted), lc (locations wanted), same (Actual is the postings bitmap itself)
SP(in) == SortSet(in.P)
SA(in) == SortSet(in.P \ in.E)
ChunkDocs(in, c) == SelectSeq(SP(in), LAMBDA d : d \div in.cs = c)
ChunkLocDocs(in, c) == SelectSeq(SP(in), LAMBDA d : d \div in.cs = c /\ d \in in.HL)

\* iterator state
Init0 == [allI |-> 0, actI |-> 0, chunk |-> 0, loaded |-> FALSE, fnI |-> 0, lcI |-> 0]

\* cursor helpers: for the clean path Actual and all are one and the same cursor (allI)
ActSeq(in) == IF in.same THEN SP(in) ELSE SA(in)
ActIdx(in, s) == IF in.same THEN s.allI ELSE s.actI
SetActIdx(in, s, i) == IF in.same THEN [s EXCEPT !.allI = i] ELSE [s EXCEPT !.actI = i]
ActHasNext(in, s) == ActIdx(in, s) < Len(ActSeq(in))
ActPeek(in, s) == ActSeq(in)[ActIdx(in, s) + 1]
ActAdvanceIfNeeded(in, s, t) ==
  LET RECURSIVE R(_)
      R(i) == IF i < Len(ActSeq(in)) /\ ActSeq(in)[i + 1] < t THEN R(i + 1) ELSE i
  IN  SetActIdx(in, s, R(ActIdx(in, s)))

LoadChunk(s, c) == [s EXCEPT !.chunk = c, !.loaded = TRUE, !.fnI = 0, !.lcI = 0]

\* skip the entry under the cursors (currChunkNext)
CurrChunkNext(in, s, c) ==
  LET s1 == IF s.chunk # c \/ ~s.loaded THEN LoadChunk(s, c) ELSE s
      cd == ChunkDocs(in, c)
      \* reading past the end of a chunk's stream is an error in the code; the model marks it
      d  == IF s1.fnI < Len(cd) THEN cd[s1.fnI + 1] ELSE -1
      hl == d \in in.HL
  IN  [s1 EXCEPT !.fnI = @ + 1, !.lcI = IF in.lc /\ hl THEN @ + 1 ELSE @]

Times(in, s, c, k) == LET RECURSIVE R(_, _) R(st, j) == IF j = 0 THEN st ELSE R(CurrChunkNext(in, st, c), j - 1) IN R(s, k)

\* clean path: [s, n] with n = -1 for "nothing"
Clean(in, s, t) ==
  IF ~in.fn THEN
     LET s1 == ActAdvanceIfNeeded(in, s, t) IN
     IF ~ActHasNext(in, s1) THEN [s |-> s1, n |-> -1]
     ELSE [s |-> SetActIdx(in, s1, ActIdx(in, s1) + 1), n |-> ActPeek(in, s1)]
  ELSE
     LET n0 == ActPeek(in, s)
         s0 == SetActIdx(in, s, ActIdx(in, s) + 1)
         RECURSIVE W(_, _, _, _)
         W(st, n, ch, same) ==
           IF n < t /\ ActHasNext(in, st)
           THEN LET n2 == ActPeek(in, st)
                    st2 == SetActIdx(in, st, ActIdx(in, st) + 1)
                    ch2 == n2 \div in.cs
                IN  W(st2, n2, ch2, IF ch2 # ch THEN 0 ELSE same + 1)
           ELSE [st |-> st, n |-> n, ch |-> ch, same |-> same]
         w == W(s0, n0, n0 \div in.cs, IF Mut = "same1" THEN 1 ELSE 0)
     IN  IF w.n < t THEN [s |-> w.st, n |-> -1]
         ELSE LET s1 == Times(in, w.st, w.ch, w.same)
                  s2 == IF s1.chunk # w.ch \/ ~s1.loaded THEN LoadChunk(s1, w.ch) ELSE s1
              IN  [s |-> s2, n |-> w.n]

\* filtered path
Filtered(in, s, t) ==
  LET s1 == ActAdvanceIfNeeded(in, s, t) IN
  IF ~ActHasNext(in, s1) \/ ~(s1.allI < Len(SP(in))) THEN [s |-> s1, n |-> -1]
  ELSE
    LET n == ActPeek(in, s1)
        s2 == [SetActIdx(in, s1, ActIdx(in, s1) + 1) EXCEPT !.allI = s1.allI + 1]
        allN0 == SP(in)[s1.allI + 1]
        ch == n \div in.cs
        reaches == ch * in.cs
        RECURSIVE W(_, _)
        W(st, allN) ==
          IF allN = n THEN [st |-> st, ok |-> TRUE]
          ELSE LET st1 == IF in.fn /\ (IF Mut = "gt" THEN allN > reaches ELSE allN >= reaches) THEN CurrChunkNext(in, st, ch) ELSE st IN
               IF ~(st1.allI < Len(SP(in))) THEN [st |-> st1, ok |-> FALSE]
               ELSE W([st1 EXCEPT !.allI = @ + 1], SP(in)[st1.allI + 1])
        w == W(s2, allN0)
    IN  IF ~w.ok THEN [s |-> w.st, n |-> -1]
        ELSE LET s3 == IF in.fn /\ (w.st.chunk # ch \/ ~w.st.loaded) THEN LoadChunk(w.st, ch) ELSE w.st
             IN  [s |-> s3, n |-> n]

\* one call: returns the new state, the document number (or -1), and the documents whose freq/norm
\* and location entries were read for it (-1 = not read)
Call(in, s, t) ==
  IF ~ActHasNext(in, s) THEN [s |-> s, n |-> -1, fnDoc |-> -1, lcDoc |-> -1]
  ELSE
    LET r == IF in.same THEN Clean(in, s, t) ELSE Filtered(in, s, t) IN
    IF r.n = -1 \/ ~in.fn THEN [s |-> r.s, n |-> r.n, fnDoc |-> -1, lcDoc |-> -1]
    ELSE LET cd == ChunkDocs(in, r.s.chunk)
             fd == IF r.s.fnI < Len(cd) THEN cd[r.s.fnI + 1] ELSE -2
             hl == fd \in in.HL
             ld == ChunkLocDocs(in, r.s.chunk)
             lcd == IF in.lc /\ hl THEN (IF r.s.lcI < Len(ld) THEN ld[r.s.lcI + 1] ELSE -2) ELSE -1
         IN  [s |-> [r.s EXCEPT !.fnI = @ + 1, !.lcI = IF in.lc /\ hl THEN @ + 1 ELSE @],
              n |-> r.n, fnDoc |-> fd, lcDoc |-> lcd]

----------------------------------------------------------------------------
VARIABLES in, st, last, done, steps, ok

vars == <<in, st, last, done, steps, ok>>

Universe == 0..(N - 1)

Init ==
  /\ \E P \in SUBSET Universe, E \in SUBSET Universe, cs \in ChunkSizes, fn \in BOOLEAN, lc \in BOOLEAN, same \in BOOLEAN, hk \in {0, 1, 2} :
       /\ (same => E = {})            \* the postings bitmap itself is iterated only without an exclusion bitmap
       /\ (lc => fn)                  \* locations imply freq/norm (includeFreqNorm = freq or norm or locs)
       /\ in = [P |-> P, E |-> E, cs |-> cs, fn |-> fn, lc |-> lc, same |-> same,
                HL |-> IF hk = 0 THEN {} ELSE IF hk = 1 THEN P ELSE { d \in P : d % 2 = 0 }]
  /\ st = Init0 /\ last = -1 /\ done = FALSE /\ steps = 0 /\ ok = TRUE

Live == in.P \ in.E
AtOrAfter(t) == IF \E d \in Live : d >= t THEN CHOOSE d \in Live : d >= t /\ \A e \in Live : e >= t => d <= e ELSE -1

\* the declarative answer and the operational one, compared at every call
Do(t) ==
  /\ steps < L
  /\ LET want == IF done THEN -1 ELSE AtOrAfter(t)
         r == Call(in, st, t)
     IN  /\ st' = r.s
         /\ ok' = (ok /\ r.n = want
                      /\ (r.n # -1 /\ in.fn => r.fnDoc = r.n)
                      /\ (r.n # -1 /\ in.lc /\ r.n \in in.HL => r.lcDoc = r.n)
                      /\ (r.n # -1 /\ in.lc /\ r.n \notin in.HL => r.lcDoc = -1))
         /\ last' = IF want = -1 THEN last ELSE want
         /\ done' = (want = -1)
  /\ steps' = steps + 1 /\ UNCHANGED in

Next == \/ Do(last + 1)                                  \* Next()
        \/ \E t \in 0..N : t > last /\ Do(t)             \* Advance(t), target beyond the last returned document

Spec == Init /\ [][Next]_vars

\* the operational iterator refines the declarative one and never reads another document's details
Refines == ok
=============================================================================
