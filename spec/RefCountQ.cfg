SPECIFICATION Spec
CONSTANTS
  Holders = {1, 2}
  MaxLen = 6
  Emit = TRUE
CONSTRAINT EmitWalk
INVARIANT RefSafe
CHECK_DEADLOCK FALSE
