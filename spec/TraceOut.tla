------------------------------ MODULE TraceOut ------------------------------
(***************************************************************************)
(* Validates recorded outcomes of Persist / WriteTo / Merge under injected *)
(* write faults, cancellations and engine failures against OutFile: the    *)
(* program of an operation is the step sequence recorded from its          *)
(* fault-free real run; for every injected plan the model's terminal state *)
(* (RunToEnd) must equal what the real operation did.                      *)
(***************************************************************************)
EXTENDS OutFile, Json, IOUtils, SequencesExt

Trace == ndJsonDeserialize(IOEnv.TRACE)

VARIABLES l, progs, nbad

tvars == <<l, progs, nbad, st>>

Ev == Trace[l]
IsEv(e) == l <= Len(Trace) /\ Trace[l].ev = e

Report(bad) ==
  IF bad = {} THEN 0
  ELSE IF PrintT(<<"MISMATCH", ToJson([l |-> l, prov |-> "out-" \o Ev.kind, bad |-> SetToSeq(bad)])>>) THEN Cardinality(bad) ELSE 0

IfBad(c, x) == IF c THEN {x} ELSE {}

TraceInit == l = 1 /\ progs = <<>> /\ nbad = 0 /\ st = 0

\* the program of an operation (recorded from its fault-free run)
TrProg ==
  /\ IsEv("outprog")
  /\ progs' = (Ev.id :> [kind |-> Ev.kind, cap |-> Ev.cap, prog |-> Ev.prog]) @@ progs
  \* a merge examines its close channel before it writes anything (C18: closed before the call => closed error, no file)
  /\ nbad' = nbad + Report(IfBad(Ev.kind = "merge" /\ Ev.prog[1].k # "p", <<"no-initial-poll", 0, 1, 0>>))
  /\ l' = l + 1 /\ UNCHANGED st

Outcome(p, fault, cancel, cancelW, efail) == RunToEnd(InitState(p.kind, p.prog, p.cap, fault, cancel, cancelW, efail))

NPolls(p) == Cardinality({ i \in 1..Len(p.prog) : p.prog[i].k = "p" })

Matches(s, e) == s.result = e.res /\ s.exists = e.exists

TrOut ==
  /\ IsEv("out")
  /\ LET p == IF Len(Ev.prog) > 0 THEN [progs[Ev.id] EXCEPT !.prog = Ev.prog] ELSE progs[Ev.id]
         bad ==
           IF Ev.cancel >= 0
           THEN LET s == Outcome(p, Ev.fault, Ev.cancel, Ev.cancelw, Ev.efail) IN
                IfBad(s.result # Ev.res, <<"result", Ev.res, s.result, Ev.fault, Ev.cancel, Ev.cancelw, Ev.efail>>)
                \cup IfBad(s.exists # Ev.exists, <<"file", Ev.exists, s.exists, Ev.res, Ev.fault, Ev.cancel, Ev.cancelw>>)
                \cup IfBad(Ev.res = "ok" /\ ~Ev.complete, <<"incomplete", Ev.fault, Ev.cancel, Ev.cancelw>>)
           ELSE \* the channel was closed from another goroutine at an unknown moment: some poll (or none) saw it
                IfBad(~\E j \in 0..(NPolls(p) + 1) : Matches(Outcome(p, Ev.fault, j, 0, Ev.efail), Ev), <<"async-result", Ev.res, Ev.exists>>)
                \cup IfBad(Ev.res = "ok" /\ ~Ev.complete, <<"incomplete-async">>)
     IN  nbad' = nbad + Report(bad)
  /\ l' = l + 1 /\ UNCHANGED <<progs, st>>

TrEnd == l = Len(Trace) + 1 /\ l' = l + 1 /\ PrintT(<<"ACCEPTED", Len(Trace), nbad>>) /\ UNCHANGED <<progs, nbad, st>>

TraceNext == TrProg \/ TrOut \/ TrEnd
TraceSpec == TraceInit /\ [][TraceNext]_tvars

Progress == TLCSet(1, l)
Rejected == TLCGet(1) <= Len(Trace) => PrintT(<<"REJECTED-AT", TLCGet(1)>>)
=============================================================================
