------------------------------ MODULE PostIter ------------------------------
(***************************************************************************)
(* Postings list + iterator as a state machine (DESIGN 4 C07), declarative *)
(* version: the iterator of a postings set P obtained with exclusion set E *)
(* returns, for Next and Advance(t), the least non-excluded hit at or      *)
(* after the target, with that document's own details, then nil.           *)
(*                                                                         *)
(* Bounded-exhaustive over every P, E within 0..N-1 and every call         *)
(* sequence of length L; every maximal call sequence is emitted as a walk  *)
(* with the expected returns, to be replayed on real iterators.            *)
(***************************************************************************)
EXTENDS ZapCatalog, Json

CONSTANTS N,      \* documents 0..N-1
          L,      \* calls per walk
          Emit

VARIABLES P, E, last, done, calls

vars == <<P, E, last, done, calls>>

Universe == 0..(N - 1)
Live == P \ E

AtOrAfter(S, t) == IF \E d \in S : d >= t THEN MinOf({ d \in S : d >= t }) ELSE -1

----------------------------------------------------------------------------
(* concretisation: the batch whose field f / term T (rich details) and     *)
(* field g / term S (plain: frequency 1, no locations) have postings P     *)
fF == <<102>>  fG == <<103>>  bT == <<116>>  bU == <<117>>  bS == <<115>>

RichLocs(d, fr) == [k \in 1..fr |-> Lc(<<>>, k + d, 10 * d + k, 10 * d + k + 2, IF d % 2 = 0 THEN <<>> ELSE <<d, k>>)]
RichTok(d) == Tk(bT, (d % 3) + 1, RichLocs(d, (d % 3) + 1))
FillTok(d) == Tk(bU, 1 + (d % 2), RichLocs(d + 1, 1 + (d % 2)))

DocFor(d, inP) ==
  Doc(<<100, 48 + d>>,
      << IdF(<<100, 48 + d>>),
         Txt(fF, FALSE, FALSE, 116, <<>>, <<>>, d + 4, IF inP THEN <<RichTok(d), FillTok(d)>> ELSE <<FillTok(d)>>),
         Txt(fG, FALSE, FALSE, 116, <<>>, <<>>, d + 1, IF inP THEN <<Tk(bS, 1, <<>>), Tk(bU, 1, <<>>)>> ELSE <<Tk(bU, 1, <<>>)>>) >>,
      <<>>)

BatchFor(S) == [i \in 1..N |-> DocFor(i - 1, (i - 1) \in S)]

\* expected hit of document d (as ZapData dictates) under the three detail classes
FullHit(S, f, t, d) ==
  LET ps == PostingsOf(ContentOfBatch(BatchFor(S), 1026), f, t)
  IN  ps[CHOOSE k \in 1..Len(ps) : ps[k].d = d]
HitClasses(h) ==
  [c0 |-> [d |-> h.d, fr |-> 0, nm |-> 0, locs |-> <<>>],
   c1 |-> [d |-> h.d, fr |-> h.fr, nm |-> h.nm, locs |-> <<>>],
   c2 |-> h]

Tables ==
  [n |-> N,
   rich  |-> [d \in Universe |-> HitClasses(FullHit({d}, fF, bT, d))],
   plain |-> [d \in Universe |-> HitClasses(FullHit({d}, fG, bS, d))],
   fill  |-> [d \in Universe |-> HitClasses(FullHit({}, fF, bU, d))]]

\* the tables do not depend on which other documents carry the term
ASSUME \A S \in SUBSET Universe : \A d \in S :
         FullHit(S, fF, bT, d) = FullHit({d}, fF, bT, d) /\ FullHit(S, fG, bS, d) = FullHit({d}, fG, bS, d)

----------------------------------------------------------------------------
Init ==
  /\ P \in SUBSET Universe /\ E \in SUBSET Universe
  /\ last = -1 /\ done = FALSE /\ calls = <<>>
  /\ (Emit /\ P = {} /\ E = {}) =>
        /\ PrintT(<<"TABLES", ToJson(Tables)>>)
        /\ \A S \in SUBSET Universe : PrintT(<<"BATCH", ToJson([p |-> SortInts(S), batch |-> BatchFor(S)])>>)

Out(cs) ==
  IF Emit /\ Len(cs) = L
  THEN PrintT(<<"WALK", ToJson([p |-> SortInts(P), e |-> SortInts(E), count |-> Cardinality(Live), calls |-> cs])>>)
  ELSE TRUE

Step(op, t, d) ==
  /\ last' = IF d = -1 THEN last ELSE d
  /\ done' = (d = -1)
  /\ calls' = Append(calls, [op |-> op, t |-> t, ret |-> d])
  /\ Out(calls')
  /\ UNCHANGED <<P, E>>

\* after nil every further call returns nil
DoNext == Len(calls) < L /\ Step("next", 0, IF done THEN -1 ELSE AtOrAfter(Live, last + 1))

\* Advance targets are strictly beyond the last returned document
DoAdvance(t) == Len(calls) < L /\ t > last /\ Step("advance", t, IF done THEN -1 ELSE AtOrAfter(Live, t))

Next == DoNext \/ \E t \in 0..N : DoAdvance(t)

Spec == Init /\ [][Next]_vars

----------------------------------------------------------------------------
Rets == SelectSeq([i \in 1..Len(calls) |-> calls[i].ret], LAMBDA r : r # -1)

\* returns are exactly non-excluded hits, strictly increasing, and nothing at or after a target is skipped
IterSound ==
  /\ \A i \in 1..Len(Rets) : Rets[i] \in Live
  /\ \A i \in 1..(Len(Rets) - 1) : Rets[i] < Rets[i + 1]
  /\ \A i \in 1..Len(calls) :
       LET prev == { calls[j].ret : j \in 1..(i - 1) } \ {-1}
           lo   == IF prev = {} THEN -1 ELSE MaxOf(prev)
           tgt  == IF calls[i].op = "next" THEN lo + 1 ELSE calls[i].t
           nilBefore == \E j \in 1..(i - 1) : calls[j].ret = -1
       IN  IF nilBefore THEN calls[i].ret = -1
           ELSE /\ calls[i].ret # -1 => calls[i].ret >= tgt /\ ~\E d \in Live : d >= tgt /\ d < calls[i].ret
                /\ calls[i].ret = -1 => ~\E d \in Live : d >= tgt

\* iterating with Next only enumerates exactly the non-excluded hits
NextOnlyComplete ==
  (Len(calls) = L /\ \A i \in 1..L : calls[i].op = "next") =>
     LET want == SortInts(Live) IN
     \A i \in 1..L : calls[i].ret = IF i <= Len(want) THEN want[i] ELSE -1
=============================================================================
