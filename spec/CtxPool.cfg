SPECIFICATION Spec
CONSTANTS
  Procs = {1, 2, 3}
  MaxOps = 2
  MaxSteps = 6
  Repaired = TRUE
  Emit = TRUE
CONSTRAINT EmitWalk
INVARIANT Exclusive
CHECK_DEADLOCK FALSE
