SPECIFICATION Spec
CONSTANTS
  MaxDoc = 3
  ChunkSizes = {1, 2, 3, 4}
  MaxTerms = 2
  Kinds = {"content"}
  Emit = FALSE
  Mut = "metaKept"
INVARIANT RoundTrip
CHECK_DEADLOCK FALSE
