SPECIFICATION Spec
CONSTANTS
  Procs = {1, 2, 3}
  Fields = {1, 2}
  Protocol = "rw-double-checked"
INVARIANTS NoRace OneEntry LocksSound
CHECK_DEADLOCK FALSE
