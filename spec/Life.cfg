SPECIFICATION Spec
CONSTANTS
  MaxBatch = 2
  MaxSegs = 3
  MaxMergeIn = 2
  Docs = {1, 2, 3, 4, 9}
  Modes = {1, 1026}
  Emit = TRUE
VIEW View
INVARIANTS AllWF AllObsConsistent OpenedEqualsFile
CHECK_DEADLOCK FALSE
