SPECIFICATION TraceSpec
CONSTRAINT Progress
POSTCONDITION Rejected
CHECK_DEADLOCK FALSE
