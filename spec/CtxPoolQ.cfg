SPECIFICATION Spec
CONSTANTS
  Procs = {1, 2}
  MaxOps = 2
  MaxSteps = 5
  Repaired = TRUE
  Emit = TRUE
CONSTRAINT EmitWalk
INVARIANT Exclusive
CHECK_DEADLOCK FALSE
