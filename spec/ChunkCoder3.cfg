SPECIFICATION Spec
CONSTANTS
  MaxDoc = 3
  ChunkSizes = {1, 2, 4}
  MaxTerms = 3
  Kinds = {"int"}
  Emit = FALSE
  Mut = "none"
INVARIANT RoundTrip
CHECK_DEADLOCK FALSE
