------------------------------- MODULE CtxPool -------------------------------
(***************************************************************************)
(* The process-wide pool of stored-field scratch objects under concurrent  *)
(* readers (DESIGN 4 C11).  VisitStoredFields = Get, callback(_id),        *)
(* callback(field)*, Put (deferred); the user's visitor runs between the   *)
(* steps, so other goroutines may run whole operations while one is parked *)
(* in a callback.  DocID = Get, read, Put.                                 *)
(*                                                                         *)
(* Exclusive: a scratch object has at most one owner and is never in the   *)
(* pool twice or while owned.  With Repaired = FALSE the model performs    *)
(* the extra Put of the original early-stop path and TLC refutes           *)
(* Exclusive; with TRUE (the repaired code) it holds for every             *)
(* interleaving.  Every schedule is emitted as a walk and replayed with    *)
(* parked visitors against the real pool (snapshots via the verif hook).   *)
(***************************************************************************)
EXTENDS ZapCatalog, Json

CONSTANTS Procs, MaxOps, MaxSteps, Repaired, Emit

VARIABLES pool,     \* Obj -> number of times the object is in the pool
          own,      \* Proc -> Obj or 0
          pc,       \* Proc -> [doc, k]: parked in callback k of a visit of doc; k = 0: idle
          nobj, ops, hist

vars == <<pool, own, pc, nobj, ops, hist>>

\* the segment the readers share
cpid(n) == <<99, 48 + n>>
Seg == << Doc(cpid(0), << IdF(cpid(0)), Txt(fA, TRUE, FALSE, 116, <<1, 2, 3, 4, 5, 6, 7, 8>>, <<>>, 1, <<Tk(bA, 1, <<>>)>>),
                           Txt(fB, TRUE, FALSE, 110, <<9, 9>>, <<1, 2>>, 1, <<Tk(bB, 1, <<>>)>>) >>, <<>>),
         Doc(cpid(1), << IdF(cpid(1)) >>, <<>>),
         Doc(cpid(2), << IdF(cpid(2)), Txt(fA, TRUE, FALSE, 116, [i \in 1..40 |-> i], <<0>>, 1, <<Tk(bA, 1, <<>>)>>) >>, <<>>) >>
C == ContentOfBatch(Seg, 1026)
NDocs == Len(Seg)
NVals(d) == Len(StoredOf(C, d))

Objs == 1..(MaxOps * Cardinality(Procs) + 1)

Init ==
  /\ pool = [o \in Objs |-> 0] /\ own = [p \in Procs |-> 0] /\ pc = [p \in Procs |-> [doc |-> 0, k |-> 0]]
  /\ nobj = 0 /\ ops = [p \in Procs |-> 0] /\ hist = <<>>
  /\ Emit => PrintT(<<"TABLES", ToJson([batch |-> Seg, stored |-> [d \in 1..NDocs |-> StoredOf(C, d - 1)],
                                         ids |-> [d \in 1..NDocs |-> DocIDOf(C, d - 1)]])>>)

Pooled == { o \in Objs : pool[o] > 0 }

\* sync.Pool.Get: some pooled object, or a fresh one when the pool is empty
Got(o) == IF Pooled # {} THEN o \in Pooled ELSE o = nobj + 1
AfterGet(o) == IF pool[o] > 0 THEN [pool EXCEPT ![o] = @ - 1] ELSE pool
NObjAfter(o) == IF o > nobj THEN o ELSE nobj

Rec(step) == hist' = Append(hist, step)

\* goroutine p starts VisitStoredFields(d): runs up to the first callback (the _id value)
Begin(p, d) ==
  /\ pc[p].k = 0 /\ ops[p] < MaxOps /\ Len(hist) < MaxSteps
  /\ \E o \in Objs : Got(o)
       /\ pool' = AfterGet(o) /\ nobj' = NObjAfter(o)
       /\ own' = [own EXCEPT ![p] = o]
  /\ pc' = [pc EXCEPT ![p] = [doc |-> d, k |-> 1]]
  /\ ops' = [ops EXCEPT ![p] = @ + 1]
  /\ Rec([p |-> p, a |-> "begin", d |-> d, keep |-> TRUE])

PutInto(pl, o, n) == [pl EXCEPT ![o] = @ + n]
PutN(o, n) == PutInto(pool, o, n)

\* the parked visitor of p returns keep; the visit runs to the next callback or ends
Resume(p, keep) ==
  /\ pc[p].k > 0 /\ Len(hist) < MaxSteps
  /\ LET d == pc[p].doc  k == pc[p].k  o == own[p] IN
     IF keep /\ k < NVals(d)
     THEN /\ pc' = [pc EXCEPT ![p].k = k + 1] /\ UNCHANGED <<pool, own>>
     ELSE \* the visit ends: deferred Put; the original code also Puts when stopped at the _id callback
          /\ pool' = PutN(o, IF ~keep /\ k = 1 /\ ~Repaired THEN 2 ELSE 1)
          /\ own' = [own EXCEPT ![p] = 0]
          /\ pc' = [pc EXCEPT ![p] = [doc |-> 0, k |-> 0]]
  /\ Rec([p |-> p, a |-> "resume", d |-> pc[p].doc, keep |-> keep])
  /\ UNCHANGED <<nobj, ops>>

\* DocID(d): Get, read the id, Put - no callback, hence one step
DocID(p, d) ==
  /\ pc[p].k = 0 /\ ops[p] < MaxOps /\ Len(hist) < MaxSteps
  /\ \E o \in Objs : Got(o) /\ pool' = PutInto(AfterGet(o), o, 1) /\ nobj' = NObjAfter(o)
  /\ ops' = [ops EXCEPT ![p] = @ + 1]
  /\ Rec([p |-> p, a |-> "docid", d |-> d, keep |-> TRUE])
  /\ UNCHANGED <<own, pc>>

\* a merge that uses the segment as input and is cancelled at its j-th poll of the close channel:
\* the stored-field phase takes one scratch object for the whole merge and returns it on every path
MergeCancel(p, j) ==
  /\ pc[p].k = 0 /\ ops[p] < MaxOps /\ Len(hist) < MaxSteps
  /\ \E o \in Objs : Got(o) /\ pool' = PutInto(AfterGet(o), o, 1) /\ nobj' = NObjAfter(o)
  /\ ops' = [ops EXCEPT ![p] = @ + 1]
  /\ Rec([p |-> p, a |-> "mergecancel", d |-> j, keep |-> TRUE])
  /\ UNCHANGED <<own, pc>>

Next == \E p \in Procs :
          \/ \E d \in 0..(NDocs - 1) : Begin(p, d) \/ DocID(p, d)
          \/ \E j \in 2..4 : MergeCancel(p, j)
          \/ \E keep \in BOOLEAN : Resume(p, keep)

Spec == Init /\ [][Next]_vars

Terminal == Len(hist) = MaxSteps \/ (\A p \in Procs : pc[p].k = 0 /\ ops[p] = MaxOps)

EmitWalk == (Emit /\ Terminal) => PrintT(<<"WALK", ToJson([steps |-> hist])>>)

Exclusive ==
  /\ \A p, q \in Procs : p # q /\ own[p] # 0 => own[p] # own[q]
  /\ \A o \in Objs : pool[o] <= 1
  /\ \A o \in Objs : pool[o] = 1 => \A p \in Procs : own[p] # o
=============================================================================
