SPECIFICATION Spec
CONSTANTS
  Handles = {1, 2}
  MaxSteps = 5
  Emit = TRUE
VIEW View
INVARIANTS HandleSafe ClosedOnce NoLeak RefsExact
CHECK_DEADLOCK FALSE
