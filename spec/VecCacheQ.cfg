SPECIFICATION Spec
CONSTANTS
  Handles = {1, 2}
  MaxSteps = 7
  Emit = TRUE
  Counted = TRUE
VIEW View
INVARIANTS HandleSafe ClosedOnce NoLeak RefsExact
CHECK_DEADLOCK FALSE
