SPECIFICATION Spec
CONSTANTS
  L = 4
  NDocs = 4
  Chunks = {1, 2, 3}
  Emit = TRUE
INVARIANT DvAnyOrder
CHECK_DEADLOCK FALSE
