SPECIFICATION Spec
CONSTANTS
  MaxTerms = 3
  NCat = 5
  Repaired = TRUE
  Emit = TRUE
CONSTRAINT EmitQuery
INVARIANTS EnumExact Ascending
CHECK_DEADLOCK FALSE
