SPECIFICATION Spec
CONSTANTS
  MaxSize = 3
  MaxBuilds = 3
  Order = "clear-then-truncate"
  Kinds = {"dvflags", "postings"}
INVARIANTS NoLeak PooledClean
CHECK_DEADLOCK FALSE
