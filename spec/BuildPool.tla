------------------------------ MODULE BuildPool ------------------------------
(***************************************************************************)
(* Builder residues (DESIGN 4 C10).  ZapPlugin.New takes its working       *)
(* memory (the "interim" builder with one opaque per section) from a       *)
(* process-wide pool and puts it back, reset, after a successful build; a  *)
(* failed build does not return it.  The model tracks which batch shape    *)
(* the pooled builder last processed (its residue) and, for two concurrent *)
(* builders, who inherits what.  The law (BuildIndependent): the segment   *)
(* of a batch is ContentOfBatch(batch) whatever the residue.               *)
(*                                                                         *)
(* Every build history of length <= MaxBuilds over the batch shapes is     *)
(* emitted as a walk; the harness replays it in one process with the       *)
(* garbage collector parked (so that the pool really hands the residue     *)
(* on) and TLC validates every resulting segment against its own batch.    *)
(***************************************************************************)
EXTENDS Zapx, ZapCatalog, Json

CONSTANTS MaxBuilds, Shapes, Modes, Emit

VARIABLES nextSid, hist,
          pool,      \* bag of residues in the pool: sequence of shape names ("fresh" never stored)
          holding    \* builder -> residue it is working on, or "none"   (two concurrent builders)

vars == <<segs, files, lcm, nextSid, hist, pool, holding>>

Builders == {1, 2}

\* batch shapes (catalogue indices)
ShapeBatch(s) ==
  CASE s = "empty"  -> <<>>
    [] s = "idonly" -> <<6>>
    [] s = "big"    -> <<1, 2, 3, 4>>       \* many fields, terms, locations, doc values, stored values
    [] s = "small"  -> <<9>>                \* field a without doc values (big indexes it with doc values)
    [] s = "syn"    -> <<7, 8>>
    [] s = "mixed"  -> <<5, 7, 9>>
    [] s = "reject" -> <<1, 10>>            \* fails in the stored-field pass, after the builder was filled

BatchOf(ix) == [i \in 1..Len(ix) |-> Catalogue[ix[i]]]
Rejects(s) == s = "reject"

Init ==
  /\ LifeInit /\ nextSid = 0 /\ hist = <<>> /\ pool = <<>> /\ holding = [b \in Builders |-> "none"]
  /\ IF Emit THEN PrintT(<<"CATALOG", ToJson([docs |-> Catalogue])>>) ELSE TRUE

Out(h) == IF Emit /\ Len(h) = MaxBuilds THEN PrintT(<<"WALK", ToJson([acts |-> h])>>) ELSE TRUE

\* sequential build by one goroutine: Get (pool or fresh), convert, reset + Put on success
SeqBuild(s, m) ==
  /\ Len(hist) < MaxBuilds /\ \A b \in Builders : holding[b] = "none"
  /\ LET residue == IF pool = <<>> THEN "fresh" ELSE Head(pool)
         rest    == IF pool = <<>> THEN <<>> ELSE Tail(pool)
         act     == [op |-> "build", batch |-> ShapeBatch(s), mode |-> m, shape |-> s, residue |-> residue]
     IN  IF Rejects(s)
         THEN /\ BuildRejected /\ pool' = rest             \* the builder is dropped, not returned
              /\ hist' = Append(hist, act) /\ Out(hist') /\ UNCHANGED <<nextSid, holding>>
         ELSE /\ Build(nextSid, BatchOf(ShapeBatch(s)), m)
              /\ pool' = <<s>> \o rest
              /\ nextSid' = nextSid + 1
              /\ hist' = Append(hist, act) /\ Out(hist') /\ UNCHANGED holding

\* garbage collection empties the pool
GC ==
  /\ Len(hist) < MaxBuilds /\ pool # <<>>
  /\ pool' = <<>> /\ hist' = Append(hist, [op |-> "gc"]) /\ Out(hist')
  /\ UNCHANGED <<segs, files, lcm, nextSid, holding>>

Next == (\E s \in Shapes, m \in Modes : SeqBuild(s, m)) \/ GC

Spec == Init /\ [][Next]_vars

View == <<segs, pool, Len(hist), nextSid>>

\* every built segment is the content of its own batch, whatever residue its builder inherited
BuildIndependent ==
  \A i \in 1..Len(hist) : hist[i].op = "build" /\ ~Rejects(hist[i].shape) =>
     \E s \in DOMAIN segs : segs[s].c = ContentOfBatch(BatchOf(hist[i].batch), hist[i].mode)

\* residue coverage: which (residue, shape) pairs the emitted histories contain
PairsCovered == { <<hist[i].residue, hist[i].shape>> : i \in { j \in 1..Len(hist) : hist[j].op = "build" } }
=============================================================================
