------------------------------ MODULE RefCount ------------------------------
(***************************************************************************)
(* Reference counting of an mmap-opened segment (DESIGN 4 C20).  Open      *)
(* creates the mapping and the descriptor with one reference; AddRef /     *)
(* DecRef / Close by any holder; the release that drops the count to zero  *)
(* unmaps and closes exactly once and reports no error; reads need the     *)
(* mapping.  Holders are separate processes so that TLC explores every     *)
(* interleaving; every behaviour that releases the last reference is       *)
(* emitted as a walk and replayed on a real file (mapping and descriptor   *)
(* inspected through /proc).                                               *)
(***************************************************************************)
EXTENDS ZapCatalog, Json

CONSTANTS Holders, MaxLen, Emit

\* the file the holders share
rcid(n) == <<114, 48 + n>>
RcSeg == << Doc(rcid(0), << IdF(rcid(0)), Txt(fA, TRUE, TRUE, 116, <<1, 2, 3>>, <<>>, 1, <<Tk(bA, 1, <<>>)>>) >>, <<>>),
           Doc(rcid(1), << IdF(rcid(1)), Txt(fB, TRUE, FALSE, 110, <<7>>, <<4>>, 2, <<Tk(bB, 1, <<>>), Tk(bX, 1, <<>>)>>) >>, <<>>),
           \* a synonym document: the thesaurus goes through the segment's lazily filled synonym cache
           Doc(rcid(2), << IdF(rcid(2)), Syn(fSyn, << Def(bA, <<bB, bX>>), Def(bB, <<bA>>) >>) >>, <<>>) >>
RcC == ContentOfBatch(RcSeg, 1026)

VARIABLES refs, mapped, fdOpen, unmaps, held, hist, lastErr

vars == <<refs, mapped, fdOpen, unmaps, held, hist, lastErr>>

\* held[h] = references holder h owns (the opener, holder 1, starts with one)
Init ==
  /\ refs = 1 /\ mapped = TRUE /\ fdOpen = TRUE /\ unmaps = 0 /\ lastErr = FALSE
  /\ held = [h \in Holders |-> IF h = 1 THEN 1 ELSE 0]
  /\ hist = <<>>
  /\ Emit => PrintT(<<"TABLES", ToJson([batch |-> RcSeg, stored |-> [d \in 1..Len(RcSeg) |-> StoredOf(RcC, d - 1)],
                                         ids |-> [d \in 1..Len(RcSeg) |-> DocIDOf(RcC, d - 1)]])>>)

Rec(h, op) == hist' = Append(hist, [h |-> h, op |-> op])

\* a holder that owns a reference may take another one (and hand it to itself)
AddRef(h) ==
  /\ Len(hist) < MaxLen /\ held[h] > 0
  /\ refs' = refs + 1 /\ held' = [held EXCEPT ![h] = @ + 1]
  /\ Rec(h, "addref") /\ UNCHANGED <<mapped, fdOpen, unmaps, lastErr>>

\* a holder passes one of its references to another holder (no call on the segment)
Give(h, g) ==
  /\ Len(hist) < MaxLen /\ h # g /\ held[h] > 1
  /\ held' = [held EXCEPT ![h] = @ - 1, ![g] = @ + 1]
  /\ Rec(h, "give") /\ UNCHANGED <<refs, mapped, fdOpen, unmaps, lastErr>>

Release(h, op) ==
  /\ Len(hist) < MaxLen /\ held[h] > 0
  /\ refs' = refs - 1 /\ held' = [held EXCEPT ![h] = @ - 1]
  /\ IF refs' = 0
     THEN mapped' = FALSE /\ fdOpen' = FALSE /\ unmaps' = unmaps + 1 /\ lastErr' = ~(mapped /\ fdOpen)
     ELSE UNCHANGED <<mapped, fdOpen, unmaps, lastErr>>
  /\ Rec(h, op)

Read(h) ==
  /\ Len(hist) < MaxLen /\ held[h] > 0
  /\ Rec(h, "read") /\ UNCHANGED <<refs, mapped, fdOpen, unmaps, held, lastErr>>

Next == \E h \in Holders :
          \/ AddRef(h) \/ Release(h, "decref") \/ Release(h, "close") \/ Read(h)
          \/ \E g \in Holders : Give(h, g)

Spec == Init /\ [][Next]_vars

SumHeld == LET S == Holders IN LET RECURSIVE Sum(_) Sum(T) == IF T = {} THEN 0 ELSE LET x == CHOOSE x \in T : TRUE IN held[x] + Sum(T \ {x}) IN Sum(S)

RefSafe ==
  /\ mapped <=> refs > 0
  /\ fdOpen <=> refs > 0
  /\ unmaps <= 1
  /\ ~lastErr
  /\ refs = SumHeld
  /\ \A h \in Holders : held[h] > 0 => mapped      \* whoever may read finds the mapping

EmitWalk == (Emit /\ refs = 0) => PrintT(<<"WALK", ToJson([ops |-> hist])>>)
=============================================================================
