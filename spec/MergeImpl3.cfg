SPECIFICATION Spec
CONSTANTS
  NT = 2
  ND = 1
  NS = 3
  Mut = "none"
INVARIANT MergeIsRebuild
CHECK_DEADLOCK FALSE
