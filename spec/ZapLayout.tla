------------------------------ MODULE ZapLayout ------------------------------
(***************************************************************************)
(* The v16 on-disk layout as a decoder written in TLA+ (DESIGN 2.5, C09):  *)
(* footer at fixed positions from the end, CRC-32, sections index, field   *)
(* table with (section type, address) pairs, inverted-index record,        *)
(* postings record, chunked integer streams (frequency/norm and location   *)
(* details), stored-field index and records, doc-value chunks and trailer, *)
(* thesaurus block with its id -> term table.  Written from zap.md /       *)
(* README.md and the writer-side comments; where the pictures of zap.md    *)
(* are ambiguous (position of the field count in the sections index) the   *)
(* written order of the pinned release is what the layout *is*.            *)
(*                                                                         *)
(* F is the file as a sequence of bytes; offsets are 0-based as in the     *)
(* format.  The three embedded third-party formats (vellum FST, roaring    *)
(* bitmap, snappy block) are decoded by their own libraries through        *)
(* Leaf(kind, from, len) at the offsets computed here.  The chunk size of  *)
(* a postings list is the specification's own transcription of the chunk   *)
(* rule (ChunkSizeOf), so that a writer/reader pair that changes the rule  *)
(* consistently no longer decodes.                                         *)
(***************************************************************************)
EXTENDS ZapData, Bitwise, Json, IOUtils

Big == -1     \* a value that does not fit TLC's 32-bit integers (e.g. the "not uninverted" marker 2^64-1)

\* reads are total: a file that is not laid out as documented decodes to something else (a reported
\* difference), it does not stop the evaluation
B8(F, p) == IF p >= 0 /\ p < Len(F) THEN F[p + 1] ELSE 0
NameAt(names, i) == IF i >= 0 /\ i < Len(names) THEN names[i + 1] ELSE <<255, 255, 255, 255>>
\* a count or length no file of this size can hold is read as 0 (loops over it end at once)
Cap(F, v) == IF v < 0 \/ v > Len(F) THEN 0 ELSE v
SafeSub(s, m, n) == SubSeq(s, IF m < 1 THEN 1 ELSE m, IF n > Len(s) THEN Len(s) ELSE n)

\* Left fold of step over lo .. hi-1 with a record as state, by halving.  TLC's cost of a recursion grows with
\* the square of its depth (each level extends the context that name lookups walk), so every loop over
\* something as long as a postings list or a file goes through this: depth log2(hi - lo).  The test on the
\* left half's result makes TLC evaluate it before descending into the right half.
FoldRange(step(_, _), lo, hi, st0) ==
  LET RECURSIVE R(_, _, _)
      R(a, b, st) == IF b <= a THEN st
                     ELSE IF b = a + 1 THEN step(st, a)
                     ELSE LET m == (a + b) \div 2
                              s1 == R(a, m, st)
                          IN  IF DOMAIN s1 = {} THEN s1 ELSE R(m, b, s1)
  IN  R(lo, hi, st0)

\* big-endian unsigned integer of n bytes at p; Big when it does not fit
BE(F, p, n) ==
  LET RECURSIVE R(_, _)
      R(i, acc) == IF i = n THEN acc
                   ELSE IF acc = Big \/ acc >= 8388608 THEN Big
                   ELSE R(i + 1, acc * 256 + B8(F, p + i))
  IN  R(0, 0)

\* LEB128 unsigned varint at p: [v, n] (v = Big when it does not fit)
Uvarint(F, p) ==
  LET RECURSIVE R(_, _, _)
      R(i, acc, mult) ==
        LET b == B8(F, p + i)  low == b % 128
            fits == low = 0 \/ (i <= 3) \/ (i = 4 /\ low <= 7)
            acc2 == IF acc = Big \/ ~fits THEN Big ELSE IF low = 0 THEN acc ELSE acc + low * mult
        IN  IF b < 128 THEN [v |-> acc2, n |-> i + 1]
            ELSE R(i + 1, acc2, IF i < 4 THEN mult * 128 ELSE mult)
  IN  R(0, 0, 1)

Slice(F, p, n) == SafeSub(F, p + 1, p + n)

----------------------------------------------------------------------------
(* CRC-32 (IEEE, reflected, polynomial 0xEDB88320) on <<hi16, lo16>> pairs *)
XorP(a, b) == <<a[1] ^^ b[1], a[2] ^^ b[2]>>
Shr1(a) == <<shiftR(a[1], 1), shiftR(a[2], 1) + (a[1] % 2) * 32768>>
Shr8(a) == <<shiftR(a[1], 8), shiftR(a[2], 8) + (a[1] % 256) * 256>>
Poly == <<60856, 33568>>     \* 0xEDB8, 0x8320
CrcEntry(i) ==
  LET RECURSIVE R(_, _)
      R(k, c) == IF k = 0 THEN c ELSE R(k - 1, IF c[2] % 2 = 1 THEN XorP(Shr1(c), Poly) ELSE Shr1(c))
  IN  R(8, <<0, i>>)
CrcTable == [i \in 0..255 |-> CrcEntry(i)]
\* of the first n bytes.  TLC's cost of a recursion grows with the square of its depth (every level extends
\* the context that name lookups walk), so the bytes are folded by halving: depth log2(n) + 64 instead of n
\* (a 158 kB file: 2 s instead of minutes)
CrcRun(F, from, to, c0) ==
  LET RECURSIVE R(_, _)
      R(i, c) == IF i = to THEN c
                 ELSE R(i + 1, XorP(Shr8(c), CrcTable[(c[2] ^^ B8(F, i)) % 256]))
  IN  R(from, c0)
RECURSIVE CrcRange(_, _, _, _)
CrcRange(F, from, to, c) ==
  IF to - from <= 64 THEN CrcRun(F, from, to, c)
  ELSE LET mid == (from + to) \div 2
           c1 == CrcRange(F, from, mid, c)
       IN  IF c1[1] >= 0 THEN CrcRange(F, mid, to, c1) ELSE c1       \* the test forces c1 before descending
Crc32(F, n) == XorP(CrcRange(F, 0, n, <<65535, 65535>>), <<65535, 65535>>)

----------------------------------------------------------------------------
(* footer: D# SF F S FDV CF V CC *)
Footer(F) ==
  LET L == Len(F) IN
  [ numDocs  |-> BE(F, L - 52, 8), storedIdx |-> BE(F, L - 44, 8), fieldsIdx |-> BE(F, L - 36, 8),
    sectionsIdx |-> BE(F, L - 28, 8), dvOffset |-> BE(F, L - 20, 8),
    mode |-> BE(F, L - 12, 4), ver |-> BE(F, L - 8, 4),
    crc |-> <<BE(F, L - 4, 2), BE(F, L - 2, 2)>> ]

CrcOK(F) == Crc32(F, Len(F) - 4) = Footer(F).crc

\* chunk rule of the format (transcribed from the documentation of the chunk modes)
ChunkSizeOf(mode, card, maxDocs) ==
  IF mode <= 1024 THEN mode
  ELSE IF mode = 1025 THEN (IF card <= 1024 THEN maxDocs ELSE 1024)
  ELSE maxDocs \div ((card \div 1024) + 1)

----------------------------------------------------------------------------
(* sections index and field table *)
FieldRecord(F, a) ==
  LET nl == Uvarint(F, a)
      name == Slice(F, a + nl.n, nl.v)
      ns == Uvarint(F, a + nl.n + nl.v)
      p0 == a + nl.n + nl.v + ns.n
  IN  [ name |-> name,
        secs |-> { [ty |-> BE(F, p0 + 10 * k, 2), addr |-> BE(F, p0 + 10 * k + 2, 8)] : k \in 0..(ns.v - 1) } ]

FieldTable(F) ==
  LET S == Footer(F).sectionsIdx
      nf == Uvarint(F, S)
  IN  [i \in 1..nf.v |-> FieldRecord(F, BE(F, S + nf.n + 8 * (i - 1), 8))]

SecAddr(rec, ty) == LET s == { x \in rec.secs : x.ty = ty } IN IF s = {} THEN 0 ELSE (CHOOSE x \in s : TRUE).addr

----------------------------------------------------------------------------
(* leaves: vellum FST, roaring, roaring64, snappy - decoded by their libraries *)
Leaf(path, kind, from, n) ==
  LET out == path \o "." \o kind \o "." \o ToString(from) \o ".json"
      r   == IOExec(<<IOEnv.LEAFDEC, "leaf", kind, path, ToString(from), ToString(n), out>>)
  IN  IF r.exitValue = 0 THEN JsonDeserialize(out) ELSE Assert(FALSE, <<"leaf decoder failed", kind, from, n, r>>)

\* 64-bit FST value as four 16-bit limbs <<l3, l2, l1, l0>>
Is1Hit(v) == v[1] >= 32768
Doc1Hit(v) == v[4] + (v[3] % 32768) * 65536
Norm1Hit(v) == (v[3] \div 32768) + v[2] * 2 + (v[1] % 16384) * 131072
OffsetOf(v) == IF v[1] # 0 \/ v[2] # 0 \/ v[3] >= 32768 THEN Big ELSE v[4] + v[3] * 65536

----------------------------------------------------------------------------
(* chunked integer stream: chunk count, end offsets, data *)
\* chunk numbers from 0; a chunk the stream does not have starts beyond everything (reads as zeros)
ChunkStart(st, c) == IF c < 0 \/ c > Len(st.offs) THEN 8388607 ELSE st.data + (IF c = 0 THEN 0 ELSE st.offs[c])

\* k uvarints starting at p: [vals, p]
ReadNB(F, p, k0, maxk) ==
  \* a count no file of this length can hold - or beyond anything the harness writes (16384 > 2 x 1024 entries of a
  \* doc-value chunk header, > the chunk count of any generated segment) - is read as 0; it keeps a wrong file from
  \* costing TLC a quadratic number of sequence copies
  LET k == IF k0 < 0 \/ k0 > Len(F) \/ k0 > maxk THEN 0 ELSE k0
      one(st, i) == LET u == Uvarint(F, st.p) IN [vals |-> Append(st.vals, u.v), p |-> st.p + u.n]
  IN  FoldRange(one, 0, k, [vals |-> <<>>, p |-> p])

ReadN(F, p, k0) == ReadNB(F, p, k0, 16384)

\* chunked integer stream: chunk count, end offsets, data (an impossible chunk count reads as no chunks)
IntStream(F, a) ==
  LET nc == Uvarint(F, a)
      r  == ReadN(F, a + nc.n, nc.v)
  IN  [offs |-> r.vals, data |-> r.p]

\* locations of one hit: a byte count, then per location field, pos, start, end, #array positions, positions
ReadLocs(F, p, names, fr) ==
  LET sz == Uvarint(F, p)
      \* a byte count that runs past the end of the file frames nothing (the hit then shows no locations)
      stop == IF sz.v < 0 \/ p + sz.n + sz.v > Len(F) THEN p + sz.n ELSE p + sz.n + sz.v
      \* a hit has at most as many locations as occurrences (the writers' callers never give more, nor does the
      \* harness), and at most 256.  The bound keeps a wrong file from being parsed as tens of
      \* thousands of "locations"
      maxLocs == IF fr < 0 THEN 0 ELSE IF fr > 256 THEN 256 ELSE fr      \* (the harness never gives a hit more than a few)
      RECURSIVE R(_, _, _)
      R(q, acc, n) == IF q >= stop \/ n = maxLocs THEN acc
                      ELSE LET h == ReadN(F, q, 5)
                               ap == ReadNB(F, h.p, h.vals[5], 64)       \* (array positions: a handful)
                           IN  R(ap.p, Append(acc, [f |-> NameAt(names, h.vals[1]), p |-> h.vals[2], s |-> h.vals[3], e |-> h.vals[4], ap |-> ap.vals]), n + 1)
  IN  [locs |-> R(p + sz.n, <<>>, 0), p |-> stop]

\* the hits of a general postings record at offset a
Postings(F, path, a, ft, names) ==
  LET tf  == Uvarint(F, a)
      lc  == Uvarint(F, a + tf.n)
      bl  == Uvarint(F, a + tf.n + lc.n)
      docs == Leaf(path, "roaring", a + tf.n + lc.n + bl.n, bl.v)
      cs  == ChunkSizeOf(ft.mode, Len(docs), ft.numDocs)
      tfs == IntStream(F, tf.v)
      lcs == IF lc.v = 0 THEN [offs |-> <<>>, data |-> 0] ELSE IntStream(F, lc.v)
      hit(st, i) ==
        LET d  == docs[i]
            c  == d \div cs
            tp1 == IF c # st.chunk THEN ChunkStart(tfs, c) ELSE st.tp
            lp1 == IF c # st.chunk /\ lc.v # 0 THEN ChunkStart(lcs, c) ELSE st.lp
            fh == Uvarint(F, tp1)
            fr == fh.v \div 2
            hasLocs == fh.v % 2 = 1
            nm == IF fr > 0 THEN Uvarint(F, tp1 + fh.n) ELSE [v |-> 0, n |-> 0]
            ls == IF hasLocs THEN ReadLocs(F, lp1, names, fr) ELSE [locs |-> <<>>, p |-> lp1]
        IN  [chunk |-> c, tp |-> tp1 + fh.n + nm.n, lp |-> ls.p,
             acc |-> Append(st.acc, [d |-> d, fr |-> fr, nm |-> nm.v, locs |-> ls.locs])]
  IN  FoldRange(hit, 1, Len(docs) + 1, [chunk |-> -1, tp |-> 0, lp |-> 0, acc |-> <<>>]).acc

\* dictionary of the inverted-index section at address a (0 = the field has none): term -> hits
InvertedIndex(F, path, a, ft, names) ==
  IF a = 0 THEN <<>>
  ELSE LET dvs == Uvarint(F, a)
           dve == Uvarint(F, a + dvs.n)
           dl  == Uvarint(F, a + dvs.n + dve.n)
       IN  IF dl.v = 0 THEN <<>>
           ELSE LET vl == Uvarint(F, dl.v)
                    ents == Leaf(path, "fst", dl.v + vl.n, vl.v)
                IN  [k \in 1..Len(ents) |->
                      [t |-> ents[k].k,
                       hits |-> IF Is1Hit(ents[k].v)
                                THEN << [d |-> Doc1Hit(ents[k].v), fr |-> 1, nm |-> Norm1Hit(ents[k].v), locs |-> <<>>] >>
                                ELSE Postings(F, path, OffsetOf(ents[k].v), ft, names)]]

----------------------------------------------------------------------------
(* stored fields *)
StoredRecord(F, path, a, names) ==
  LET mds == Uvarint(F, a)
      cds == Uvarint(F, a + mds.n)
      mp  == a + mds.n + cds.n
      idl == Uvarint(F, mp)
      dp  == mp + mds.v
      idv == Slice(F, dp, idl.v)
      raw == IF cds.v - idl.v = 0 THEN <<>> ELSE Leaf(path, "snappy", dp + idl.v, cds.v - idl.v)
      RECURSIVE R(_, _)
      R(q, acc) == IF q >= mp + mds.v \/ q >= Len(F) THEN acc
                   ELSE LET h == ReadN(F, q, 5)
                            ap == ReadNB(F, h.p, h.vals[5], 64)       \* (array positions: a handful)
                        IN  R(ap.p, Append(acc, [f |-> NameAt(names, h.vals[1]), ty |-> h.vals[2],
                                                 v |-> SafeSub(raw, h.vals[3] + 1, h.vals[3] + h.vals[4]), ap |-> ap.vals]))
  IN  << [f |-> IDName, ty |-> 116, v |-> idv, ap |-> <<>>] >> \o R(mp + idl.n, <<>>)

StoredAll(F, path, ft, names) ==
  [d \in 1..ft.numDocs |-> StoredRecord(F, path, BE(F, ft.storedIdx + 8 * (d - 1), 8), names)]

----------------------------------------------------------------------------
(* doc values of one field: [start, end) with a 16-byte trailer (length of the chunk offsets, chunk count) *)
SplitFF(bs) ==
  LET one(st, i) == IF bs[i] = 255 THEN [cur |-> <<>>, acc |-> st.acc \cup {st.cur}]
                    ELSE [cur |-> Append(st.cur, bs[i]), acc |-> st.acc]
  IN  FoldRange(one, 1, Len(bs) + 1, [cur |-> <<>>, acc |-> {}]).acc

DocValues(F, path, a) ==       \* doc -> set of terms, for the documents that have an entry
  LET dvs == Uvarint(F, a)
      dve == Uvarint(F, a + dvs.n)
  IN  IF dvs.v = Big THEN <<>>
      ELSE
        LET nc   == Cap(F, BE(F, dve.v - 8, 8))
            olen == BE(F, dve.v - 16, 8)
            offs == ReadN(F, dve.v - 16 - olen, nc).vals
            chunk(c) ==
              LET s == dvs.v + (IF c = 1 THEN 0 ELSE offs[c - 1])
                  e == dvs.v + offs[c]
              IN  IF s >= e THEN <<>>
                  ELSE LET nd == Uvarint(F, s)
                           hdr == ReadN(F, s + nd.n, 2 * nd.v)
                           data == Leaf(path, "snappy", hdr.p, e - hdr.p)
                       IN  [k \in 1..(Len(hdr.vals) \div 2) |->
                              [d |-> hdr.vals[2 * k - 1],
                               ts |-> SplitFF(SafeSub(data, (IF k = 1 THEN 0 ELSE hdr.vals[2 * k - 2]) + 1, hdr.vals[2 * k]))]]
        IN  Flatten([c \in 1..nc |-> chunk(c)])

----------------------------------------------------------------------------
(* thesaurus: FST term -> postings offset, roaring64 postings of (synonym id, doc), id -> term table *)
Thesaurus(F, path, a) ==
  LET s1 == Uvarint(F, a)
      s2 == Uvarint(F, a + s1.n)
      tl == Uvarint(F, a + s1.n + s2.n)
      vl == Uvarint(F, tl.v)
      ents == Leaf(path, "fst", tl.v + vl.n, vl.v)
      tp == tl.v + vl.n + vl.v
      ns == Uvarint(F, tp)
      RECURSIVE T(_, _, _)
      T(k, q, acc) == IF k = Cap(F, ns.v) THEN acc
                      ELSE LET h == ReadN(F, q, 2) IN
                           T(k + 1, h.p + h.vals[2], acc @@ (h.vals[1] :> Slice(F, h.p, h.vals[2])))
      tab == T(0, tp + ns.n, <<>>)
      syns(off) == LET rl == Uvarint(F, off)
                       codes == Leaf(path, "roaring64", off + rl.n, rl.v)
                       \* (a synonym id the table does not have reads as a term no batch has)
                       term(id) == IF id \in DOMAIN tab THEN tab[id] ELSE <<255, 255, 255, 255>>
                   IN  { [s |-> term(codes[i][1]), d |-> codes[i][2]] : i \in 1..Len(codes) }
  IN  [k \in 1..Len(ents) |-> [t |-> ents[k].k, pairs |-> syns(OffsetOf(ents[k].v))]]

----------------------------------------------------------------------------
(* decoding a whole file and comparing it with the content that went in *)
DiffLayout(c, F, path) ==
  LET ft == Footer(F)
      tab == FieldTable(F)
      names == [i \in 1..Len(tab) |-> tab[i].name]
      IfB(cond, x) == IF cond THEN {x} ELSE {}
  IN
  IfB(~CrcOK(F), <<"layout-crc">>)
  \cup IfB(ft.ver # 16 \/ ft.mode # c.mode \/ ft.numDocs # Count(c), <<"layout-footer", ft.ver, ft.mode, ft.numDocs>>)
  \cup (IF Count(c) = 0 THEN {} ELSE
        IfB(names # c.fields, <<"layout-fields", names>>)
        \cup UNION { LET inv == InvertedIndex(F, path, SecAddr(tab[i], 0), ft, names)
                         f == tab[i].name
                     IN  IfB([k \in 1..Len(inv) |-> inv[k].t] # SortBytes(TermsOf(c, f)), <<"layout-dict", f>>)
                         \cup { <<"layout-postings", f, inv[k].t>> : k \in { k \in 1..Len(inv) : inv[k].hits # PostingsOf(c, f, inv[k].t) } }
                   : i \in 1..Len(tab) }
        \cup (LET st == StoredAll(F, path, ft, names) IN
              { <<"layout-stored", d - 1>> : d \in { d \in 1..Count(c) : st[d] # StoredOf(c, d - 1) } })
        \cup UNION { LET a == SecAddr(tab[i], 0)
                         f == tab[i].name
                         dv == IF a = 0 THEN <<>> ELSE DocValues(F, path, a)
                         got == { <<dv[k].d, dv[k].ts>> : k \in 1..Len(dv) }
                         want == { <<d - 1, DvOf(c, d - 1, f)>> : d \in { d \in 1..Count(c) : DvOf(c, d - 1, f) # {} } }
                     IN  IfB(got # want, <<"layout-docvalues", f>>)
                   : i \in 1..Len(tab) }
        \cup UNION { LET a == SecAddr(tab[i], 2)
                         f == tab[i].name
                         th == IF a = 0 THEN <<>> ELSE Thesaurus(F, path, a)
                     IN  IfB([k \in 1..Len(th) |-> th[k].t] # SortBytes(ThesTermsOf(c, f)), <<"layout-thesaurus-terms", f>>)
                         \cup { <<"layout-synonyms", f, th[k].t>> : k \in { k \in 1..Len(th) : th[k].pairs # SynonymsOf(c, f, th[k].t, {}) } }
                   : i \in 1..Len(tab) })
=============================================================================
