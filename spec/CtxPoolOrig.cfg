SPECIFICATION Spec
CONSTANTS
  Procs = {1, 2}
  MaxOps = 2
  MaxSteps = 5
  Repaired = FALSE
  Emit = FALSE
INVARIANT Exclusive
CHECK_DEADLOCK FALSE
