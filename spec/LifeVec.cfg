SPECIFICATION Spec
CONSTANTS
  MaxBatch = 2
  MaxSegs = 3
  MaxMergeIn = 2
  Docs = {1, 6, 11, 12, 13}
  Modes = {1, 1026}
  Emit = TRUE
VIEW View
INVARIANTS AllWF AllObsConsistent OpenedEqualsFile
CHECK_DEADLOCK FALSE
