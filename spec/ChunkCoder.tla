----------------------------- MODULE ChunkCoder -----------------------------
(***************************************************************************)
(* Operational model of the two chunked coders every posting detail and    *)
(* every doc value goes through (intcoder.go: chunkedIntCoder, read back   *)
(* by chunkedIntDecoder.loadChunk; contentcoder.go: chunkedContentCoder,   *)
(* read back by docValueReader), one operator per step of the code, with   *)
(* the reuse discipline of the writers (writeDicts, the merger): ONE int    *)
(* coder per segment (created with chunk size 1024), and per term          *)
(*      SetChunkSize ; Add* (increasing documents) ; Close ; Write ; Reset *)
(* where the chunk size changes from term to term (chunk modes) while the  *)
(* backing array of chunk lengths is resliced, never reallocated smaller;  *)
(* the content coder is created afresh for every field (its chunk size is  *)
(* the legacy one), so its scripts are single uses.                        *)
(*                                                                         *)
(* TLC checks, for every script of up to MaxTerms terms over documents     *)
(* 0..MaxDoc and every chunk size, that what the reader finds in chunk c   *)
(* (resp. for document d) is exactly what was added for it (RoundTrip),    *)
(* and that no step indexes outside the chunk-length array (NoPanic).      *)
(* Wrong variants (Mut) must be refuted.  Every maximal script is emitted  *)
(* with the expected read-back and replayed on the real coder / decoder    *)
(* pair through the verif hook (harness: zx chunkcoder).                   *)
(*                                                                         *)
(* Bytes are abstracted to items: a value is one item; the content coder's *)
(* compressed block is <<length>> \o data (like snappy's, it is never      *)
(* empty, so a flushed chunk without documents still has a length).        *)
(***************************************************************************)
EXTENDS Integers, Sequences, FiniteSets, TLC, Json

CONSTANTS MaxDoc, ChunkSizes, MaxTerms, Kinds, Emit,
          Mut    \* "none" | "noZero" | "rawLens" | "noCloseOnChange" | "metaKept" | "resetKeepsCurr"

Docs == 0..MaxDoc
Zeros(n) == [i \in 1..n |-> 0]
SortSet(S) == LET RECURSIVE R(_) R(T) == IF T = {} THEN <<>> ELSE LET m == CHOOSE x \in T : \A y \in T : x <= y IN <<m>> \o R(T \ {m}) IN R(S)
\* what a document contributes: one or two values (int coder) / one or two "terms" (content coder)
ValsOf(d) == IF d % 2 = 0 THEN <<10 * d + 1>> ELSE <<10 * d + 1, 10 * d + 2>>

----------------------------------------------------------------------------
(* coder object: store = backing array of chunk lengths (its length is the capacity), n = len(chunkLens),
   curr, buf (current chunk), meta (content coder), final, bad (an index outside chunkLens[:n] was used) *)
New(cs) == LET total == MaxDoc \div cs + 1 IN
  [cs |-> cs, store |-> Zeros(total), n |-> total, curr |-> 0, buf |-> <<>>, meta |-> <<>>, final |-> <<>>, bad |-> FALSE]

SetChunkSize(c, cs) == LET total == MaxDoc \div cs + 1 IN
  IF Len(c.store) < total THEN [c EXCEPT !.cs = cs, !.store = Zeros(total), !.n = total]
  ELSE [c EXCEPT !.cs = cs, !.n = total]                    \* reslice: whatever the backing array holds stays

SetLen(c, idx, v) ==     \* chunkLens[idx] = v with Go's bounds check against len
  IF idx + 1 > c.n THEN [c EXCEPT !.bad = TRUE] ELSE [c EXCEPT !.store[idx + 1] = v]

\* int coder ------------------------------------------------------------------
IClose(c) == [SetLen(c, c.curr, Len(c.buf)) EXCEPT !.final = c.final \o c.buf, !.curr = Len(c.store)]   \* sentinel = cap

IAdd(c, d, vals) ==
  LET chunk == d \div c.cs
      c1 == IF chunk # c.curr
            THEN [(IF Mut = "noCloseOnChange" THEN c ELSE IClose(c)) EXCEPT !.buf = <<>>, !.curr = chunk]
            ELSE c
  IN  [c1 EXCEPT !.buf = c1.buf \o vals]

\* content coder --------------------------------------------------------------
Block(c) == <<Len(c.meta)>> \o [i \in 1..(2 * Len(c.meta)) |-> IF i % 2 = 1 THEN c.meta[(i + 1) \div 2].d ELSE c.meta[i \div 2].e]
            \o <<Len(c.buf)>> \o c.buf
CFlush(c) == LET b == Block(c) IN [SetLen(c, c.curr, Len(b)) EXCEPT !.final = c.final \o b]

CAdd(c, d, vals) ==
  LET chunk == d \div c.cs
      c1 == IF chunk # c.curr
            THEN [CFlush(c) EXCEPT !.buf = <<>>, !.meta = IF Mut = "metaKept" THEN c.meta ELSE <<>>, !.curr = chunk]
            ELSE c
      off == Len(c1.buf)
  IN  [c1 EXCEPT !.buf = c1.buf \o vals, !.meta = Append(c1.meta, [d |-> d, e |-> off + Len(vals)])]

\* both -------------------------------------------------------------------------
EndOffsets(lens) == [i \in 1..Len(lens) |-> LET RECURSIVE S(_) S(k) == IF k = 0 THEN 0 ELSE lens[k] + S(k - 1) IN S(i)]

Write(c) ==      \* [offs, data]; the lengths are turned into end offsets in place
  LET lens == SubSeq(c.store, 1, c.n)
      offs == IF Mut = "rawLens" THEN lens ELSE EndOffsets(lens)
  IN  [out |-> [offs |-> offs, data |-> c.final],
       c   |-> [c EXCEPT !.store = [i \in 1..Len(c.store) |-> IF i <= c.n THEN offs[i] ELSE c.store[i]]]]

Reset(c) ==
  [c EXCEPT !.final = <<>>, !.buf = <<>>, !.meta = <<>>,
            !.curr = IF Mut = "resetKeepsCurr" THEN c.curr ELSE 0,
            !.store = IF Mut = "noZero" THEN c.store ELSE [i \in 1..Len(c.store) |-> IF i <= c.n THEN 0 ELSE c.store[i]]]

\* one term (or one field's doc values) through the coder: SetChunkSize; Add*; Close; Write; Reset
RunTerm(kind, c0, cs, docs) ==
  LET ds == SortSet(docs)
      c1 == SetChunkSize(c0, cs)
      RECURSIVE Adds(_, _)
      Adds(c, i) == IF i > Len(ds) THEN c
                    ELSE Adds(IF kind = "int" THEN IAdd(c, ds[i], ValsOf(ds[i])) ELSE CAdd(c, ds[i], ValsOf(ds[i])), i + 1)
      c2 == Adds(c1, 1)
      c3 == IF kind = "int" THEN IClose(c2) ELSE CFlush(c2)
      w  == Write(c3)
  IN  [out |-> w.out, c |-> Reset(w.c), bad |-> w.c.bad]

----------------------------------------------------------------------------
(* readers *)
Boundary(offs, ch) == [s |-> IF ch = 0 THEN 0 ELSE offs[ch], e |-> offs[ch + 1]]       \* readChunkBoundary
Slice(data, s, e) == IF s >= e \/ e > Len(data) THEN (IF s >= e THEN <<>> ELSE <<-1>>) ELSE SubSeq(data, s + 1, e)

\* chunkedIntDecoder.loadChunk(ch): the items of the chunk
IntChunk(out, ch) == LET b == Boundary(out.offs, ch) IN Slice(out.data, b.s, b.e)

\* docValueReader: loadDvChunk(ch) then the values of document d (<<>> when the chunk does not list it)
DvOfDoc(out, cs, d) ==
  LET ch == d \div cs
      b  == Boundary(out.offs, ch)
      blk == Slice(out.data, b.s, b.e)
  IN  IF blk = <<>> THEN <<>>
      ELSE LET nd == blk[1]
               metas == [k \in 1..nd |-> [d |-> blk[2 * k], e |-> blk[2 * k + 1]]]
               dataStart == 1 + 2 * nd + 1            \* after the block's own length item
               ks == { k \in 1..nd : metas[k].d = d }
           IN  IF ks = {} THEN <<>>
               ELSE LET k == CHOOSE x \in ks : \A y \in ks : x <= y        \* (the reader's search finds one entry)
                        s == IF k = 1 THEN 0 ELSE metas[k - 1].e
                    IN  SubSeq(blk, dataStart + s + 1, dataStart + metas[k].e)

\* the law
WantChunk(cs, docs, ch) ==
  LET ds == SortSet({ d \in docs : d \div cs = ch })
      RECURSIVE Cat(_) Cat(i) == IF i > Len(ds) THEN <<>> ELSE ValsOf(ds[i]) \o Cat(i + 1)
  IN  Cat(1)

TermOK(kind, r, cs, docs) ==
  /\ ~r.bad
  /\ Len(r.out.offs) = MaxDoc \div cs + 1
  /\ IF kind = "int"
     THEN \A ch \in 0..(MaxDoc \div cs) : IntChunk(r.out, ch) = WantChunk(cs, docs, ch)
     ELSE \A d \in Docs : DvOfDoc(r.out, cs, d) = (IF d \in docs THEN ValsOf(d) ELSE <<>>)

----------------------------------------------------------------------------
VARIABLES kind, cs0, coder, nterms, ok, hist

vars == <<kind, cs0, coder, nterms, ok, hist>>

Init ==
  /\ kind \in Kinds
  /\ cs0 \in ChunkSizes /\ coder = New(cs0)          \* newChunkedIntCoder(1024, maxDocNum): any of the sizes
  /\ nterms = 0 /\ ok = TRUE /\ hist = <<>>

Term(cs, docs) ==
  /\ nterms < MaxTerms
  /\ LET r == RunTerm(kind, IF kind = "content" THEN New(cs) ELSE coder, cs, docs) IN
       /\ coder' = r.c
       /\ ok' = (ok /\ TermOK(kind, r, cs, docs))
       /\ hist' = Append(hist, [cs |-> cs, docs |-> SortSet(docs),
                                exp |-> IF kind = "int" THEN [ch \in 1..(MaxDoc \div cs + 1) |-> WantChunk(cs, docs, ch - 1)]
                                        ELSE [d \in 1..(MaxDoc + 1) |-> IF (d - 1) \in docs THEN ValsOf(d - 1) ELSE <<>>]])
  /\ nterms' = nterms + 1 /\ UNCHANGED <<kind, cs0>>

Done ==
  /\ nterms = MaxTerms /\ nterms' = nterms + 1
  /\ Emit => PrintT(<<"WALK", ToJson([kind |-> kind, maxdoc |-> MaxDoc, first |-> cs0, terms |-> hist])>>)
  /\ UNCHANGED <<kind, cs0, coder, ok, hist>>

Next == (\E cs \in ChunkSizes, docs \in SUBSET Docs : Term(cs, docs)) \/ Done

Spec == Init /\ [][Next]_vars

RoundTrip == ok
=============================================================================
