SPECIFICATION Spec
CONSTANTS
  Sizes = {1, 3}
  MaxProg = 4
  Caps = {1, 2, 4}
  Explore = "merge"
INVARIANTS OkMeansComplete ErrMeansNoFile FaultSurfaces CancelSurfaces EngineSurfaces
CHECK_DEADLOCK FALSE
