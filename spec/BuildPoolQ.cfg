SPECIFICATION Spec
CONSTANTS
  MaxBuilds = 3
  Shapes = {"empty", "idonly", "big", "small", "syn", "mixed", "reject"}
  Modes = {1026}
  Emit = TRUE
INVARIANTS BuildIndependent AllWF
CHECK_DEADLOCK FALSE
