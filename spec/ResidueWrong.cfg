SPECIFICATION Spec
CONSTANTS
  MaxSize = 3
  MaxBuilds = 3
  Order = "truncate-then-clear"
  Kinds = {"dvflags", "postings"}
INVARIANTS NoLeak PooledClean
CHECK_DEADLOCK FALSE
