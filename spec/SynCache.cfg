SPECIFICATION Spec
CONSTANTS
  Procs = {1, 2, 3}
  Emit = TRUE
  Leak = FALSE
INVARIANTS LockFree OneEntry Served
CHECK_DEADLOCK FALSE
