SPECIFICATION Spec
CONSTANTS
  N = 4
  L = 3
  Emit = TRUE
INVARIANTS IterSound NextOnlyComplete
CHECK_DEADLOCK FALSE
