SPECIFICATION Spec
CONSTANTS
  MaxTerms = 3
  NCat = 5
  Repaired = FALSE
  Emit = FALSE
INVARIANTS EnumExact
CHECK_DEADLOCK FALSE
