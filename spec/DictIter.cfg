SPECIFICATION Spec
CONSTANTS
  MaxTerms = 4
  NCat = 6
  Repaired = TRUE
  Emit = TRUE
CONSTRAINT EmitQuery
INVARIANTS EnumExact Ascending
CHECK_DEADLOCK FALSE
