SPECIFICATION TraceSpec
CONSTANTS
  Sizes = {1}
  MaxProg = 1
  Caps = {1}
  Explore = "persist"
CONSTRAINT Progress
POSTCONDITION Rejected
CHECK_DEADLOCK FALSE
