----------------------------- MODULE ZapCatalog -----------------------------
(***************************************************************************)
(* The finite catalogue of abstract documents used by the exhaustive and   *)
(* simulation configurations (single source: TLC exports it as JSON and    *)
(* the harness builds real documents from that).                           *)
(***************************************************************************)
EXTENDS ZapData

\* byte strings
bA == <<97>>            bB == <<98>>          bAB == <<97, 98>>      bEmpty == <<>>
bCafe == <<99, 97, 102, 195, 169>>            bX == <<120>>          bY == <<121>>
fA == <<97>>            fB == <<98>>          fAll == <<95, 97, 108, 108>>
fTe == <<116, 195, 169>>                      fSyn == <<115, 121, 110>>   fSyn2 == <<115, 122>>
fVec == <<118>>

Tk(t, fr, locs) == [t |-> t, fr |-> fr, locs |-> locs]
Lc(f, p, s, e, ap) == [f |-> f, p |-> p, s |-> s, e |-> e, ap |-> ap]

Inst(name, kind, stored, dv, typ, value, ap, len, toks, defs, vec, dims, metric) ==
  [name |-> name, kind |-> kind, stored |-> stored, dv |-> dv, typ |-> typ, value |-> value, ap |-> ap,
   len |-> len, toks |-> toks, defs |-> defs, vec |-> vec, dims |-> dims, metric |-> metric, opt |-> 0,
   reject |-> FALSE]

Txt(name, stored, dv, typ, value, ap, len, toks) ==
  Inst(name, 0, stored, dv, typ, value, ap, len, toks, <<>>, <<>>, 0, 0)

IdF(id) == Txt(IDName, TRUE, FALSE, 116, id, <<>>, 1, <<Tk(id, 1, <<>>)>>)

Syn(name, defs) == Inst(name, 1, FALSE, FALSE, 0, <<>>, <<>>, 0, <<>>, defs, <<>>, 0, 0)
Def(t, syns) == [t |-> t, syns |-> syns]

Vec(name, v, metric) == Inst(name, 2, FALSE, FALSE, 0, <<>>, <<>>, 0, <<>>, <<>>, v, IF name = <<118, 100>> THEN 3 ELSE 2, metric)

Doc(id, fields, comp) == [id |-> id, fields |-> fields, composite |-> comp]

id(n) == <<100, 48 + n>>     \* "d0" .. "d9"

\* 1 plain: one field, two terms with term vectors, doc values, stored
D1 == Doc(id(1),
       << IdF(id(1)),
          Txt(fA, TRUE, TRUE, 116, <<1, 2, 3>>, <<>>, 3,
              << Tk(bA, 2, <<Lc(<<>>, 1, 0, 1, <<>>), Lc(<<>>, 3, 4, 5, <<>>)>>), Tk(bB, 1, <<Lc(<<>>, 2, 2, 3, <<>>)>>) >>) >>,
       <<>>)
\* 2 multi-valued field (array positions, frequencies merged), _id in the middle, no term vectors
D2 == Doc(id(2),
       << Txt(fA, TRUE, TRUE, 116, <<7>>, <<0>>, 1, << Tk(bA, 1, <<>>) >>),
          IdF(id(2)),
          Txt(fA, TRUE, TRUE, 116, <<>>, <<1>>, 2, << Tk(bA, 1, <<>>), Tk(bAB, 1, <<>>) >>) >>,
       <<>>)
\* 3 composite _all naming source fields; empty and non-ASCII terms; a second field
D3 == Doc(id(3),
       << IdF(id(3)),
          Txt(fB, FALSE, FALSE, 116, <<>>, <<>>, 2, << Tk(bEmpty, 1, <<Lc(<<>>, 1, 0, 0, <<2, 300>>)>>), Tk(bCafe, 1, <<>>) >>),
          Txt(fTe, TRUE, FALSE, 110, <<255, 0>>, <<3, 4, 5>>, 0, <<>>) >>,
       << Txt(fAll, FALSE, TRUE, 116, <<>>, <<>>, 2, << Tk(bCafe, 1, <<Lc(fB, 2, 1, 6, <<>>)>>), Tk(bEmpty, 1, <<Lc(fB, 1, 0, 0, <<2, 300>>)>>) >>) >>)
\* 4 frequency 0, more occurrences than locations, same term as D1 in field a
D4 == Doc(id(4),
       << Txt(fA, FALSE, TRUE, 116, <<>>, <<>>, 4, << Tk(bA, 3, <<Lc(<<>>, 1, 0, 1, <<9>>)>>), Tk(bX, 0, <<>>) >>),
          IdF(id(4)) >>,
       <<>>)
\* 5 the same id as D1 (an update): different content
D5 == Doc(id(1),
       << IdF(id(1)), Txt(fB, TRUE, TRUE, 116, <<5, 5>>, <<>>, 1, << Tk(bY, 1, <<>>) >>) >>,
       <<>>)
\* 6 only an _id
D6 == Doc(id(6), << IdF(id(6)) >>, <<>>)
\* 7, 8 synonym documents: two thesauri, shared synonyms, the same term defined twice
D7 == Doc(id(7), << IdF(id(7)), Syn(fSyn, << Def(bA, <<bB, bX>>), Def(bB, <<bA>>) >>) >>, <<>>)
D8 == Doc(id(8), << IdF(id(8)), Syn(fSyn, << Def(bA, <<bX, bY>>) >>), Syn(fSyn2, << Def(bCafe, <<bA>>) >>) >>, <<>>)

\* 9 field a without doc values and with term vectors off (D1, D2, D4 index it with doc values)
D9 == Doc(id(9), << IdF(id(9)), Txt(fA, TRUE, FALSE, 116, <<9>>, <<>>, 2, << Tk(bA, 1, <<>>), Tk(bX, 1, <<>>) >>) >>, <<>>)

\* 10 a document the installed field validator rejects (the build fails)
D10 == Doc(id(0), << IdF(id(0)), [Txt(fB, TRUE, TRUE, 116, <<1>>, <<>>, 1, << Tk(bX, 1, <<>>) >>) EXCEPT !.reject = TRUE] >>, <<>>)

\* 11..13 vector documents (build tag vectors): one vector; two vectors in one field, one a duplicate of
\* D11's; a second field with the inner-product metric next to an ordinary field
fVd == <<118, 100>>
D11 == Doc(id(3), << IdF(id(3)), Vec(fVec, <<1, 0>>, 0) >>, <<>>)
D12 == Doc(id(4), << Vec(fVec, <<0, 1, 1, 0>>, 0), IdF(id(4)) >>, <<>>)
D13 == Doc(id(5), << IdF(id(5)), Vec(fVd, <<2, -1, 1>>, 1), Vec(fVec, <<-2, 2>>, 0),
                     Txt(fA, TRUE, FALSE, 116, <<1>>, <<>>, 1, << Tk(bA, 1, <<>>) >>) >>, <<>>)

Catalogue == << D1, D2, D3, D4, D5, D6, D7, D8, D9, D10, D11, D12, D13 >>
=============================================================================
