-------------------------------- MODULE Caches --------------------------------
(***************************************************************************)
(* The lazily filled per-segment caches that concurrent readers share      *)
(* (C11, operational part): the field -> FST map filled under the          *)
(* segment's mutex by Dictionary(), and the thesaurus cache with its       *)
(* double-checked read-lock / write-lock protocol (synonym_cache.go).      *)
(* Each reader is a process; every lock acquisition, map read, map write   *)
(* and release is a step, so TLC explores every interleaving.              *)
(*                                                                         *)
(*   NoRace       a map write never overlaps another access of the map     *)
(*                (the memory-model clause of the property, at the level   *)
(*                of the lock protocol)                                    *)
(*   OneEntry     an entry is created once per field, every reader gets    *)
(*                the same one                                             *)
(* Protocol = "mutex" (FST map: Lock, read, maybe write, Unlock),          *)
(* "rw-double-checked" (thesaurus cache: RLock, read; on a miss RUnlock,   *)
(* Lock, read again, maybe write, Unlock) are the code; "rlock-write"      *)
(* (writing on a miss while holding only the read lock) is the wrong       *)
(* variant TLC refutes.                                                    *)
(***************************************************************************)
EXTENDS Integers, FiniteSets, TLC

CONSTANTS Procs, Fields, Protocol

VARIABLES cache,     \* field -> entry id (0 = absent)
          pc,        \* proc -> step label
          want,      \* proc -> field it is looking up
          got,       \* proc -> entry it obtained (0 = none yet)
          rlocks,    \* set of procs holding the read lock
          wlock,     \* proc holding the write lock / mutex, or 0
          writing,   \* set of procs in the middle of a map write
          reading,   \* set of procs in the middle of a map read
          created    \* field -> number of entries created

vars == <<cache, pc, want, got, rlocks, wlock, writing, reading, created>>

Init ==
  /\ cache = [f \in Fields |-> 0] /\ pc = [p \in Procs |-> "idle"] /\ want \in [Procs -> Fields]
  /\ got = [p \in Procs |-> 0] /\ rlocks = {} /\ wlock = 0 /\ writing = {} /\ reading = {}
  /\ created = [f \in Fields |-> 0]

CanR == wlock = 0
CanW(p) == wlock = 0 /\ rlocks \subseteq {p}

Go(p, from, to) == pc[p] = from /\ pc' = [pc EXCEPT ![p] = to]

\* --- read-side of the protocols -------------------------------------------------------------
Start(p) ==
  /\ IF Protocol = "mutex"
     THEN Go(p, "idle", "locked") /\ CanW(p) /\ wlock' = p /\ UNCHANGED rlocks
     ELSE Go(p, "idle", "rlocked") /\ CanR /\ rlocks' = rlocks \cup {p} /\ UNCHANGED wlock
  /\ UNCHANGED <<cache, want, got, writing, reading, created>>

\* a map read takes two steps (begin / end) so that an overlapping write is visible
ReadBegin(p, at, to) == Go(p, at, to) /\ reading' = reading \cup {p} /\ UNCHANGED <<cache, want, got, rlocks, wlock, writing, created>>
ReadEnd(p, at, hit, miss) ==
  /\ pc[p] = at /\ reading' = reading \ {p}
  /\ IF cache[want[p]] # 0
     THEN pc' = [pc EXCEPT ![p] = hit] /\ got' = [got EXCEPT ![p] = cache[want[p]]]
     ELSE pc' = [pc EXCEPT ![p] = miss] /\ UNCHANGED got
  /\ UNCHANGED <<cache, want, rlocks, wlock, writing, created>>

WriteBegin(p, at, to) == Go(p, at, to) /\ writing' = writing \cup {p} /\ UNCHANGED <<cache, want, got, rlocks, wlock, reading, created>>
WriteEnd(p, at, to) ==
  /\ Go(p, at, to) /\ writing' = writing \ {p}
  /\ created' = [created EXCEPT ![want[p]] = @ + 1]
  /\ cache' = [cache EXCEPT ![want[p]] = 10 * created'[want[p]] + p]      \* a new entry (distinguishable)
  /\ got' = [got EXCEPT ![p] = cache'[want[p]]]
  /\ UNCHANGED <<want, rlocks, wlock, reading>>

Release(p, at) ==
  /\ Go(p, at, "done") /\ rlocks' = rlocks \ {p} /\ wlock' = IF wlock = p THEN 0 ELSE wlock
  /\ UNCHANGED <<cache, want, got, writing, reading, created>>

\* RUnlock, then Lock (another process may run in between)
Upgrade1(p) == Go(p, "rmiss", "unlocked") /\ rlocks' = rlocks \ {p} /\ UNCHANGED <<cache, want, got, wlock, writing, reading, created>>
Upgrade2(p) == Go(p, "unlocked", "locked") /\ CanW(p) /\ wlock' = p /\ UNCHANGED <<cache, want, got, rlocks, writing, reading, created>>

Proc(p) ==
  \/ Start(p)
  \* mutex protocol and the locked part of the double-checked one
  \/ ReadBegin(p, "locked", "lreading") \/ ReadEnd(p, "lreading", "lhit", "lmiss")
  \/ WriteBegin(p, "lmiss", "lwriting") \/ WriteEnd(p, "lwriting", "lhit")
  \/ Release(p, "lhit")
  \* read-locked part
  \/ ReadBegin(p, "rlocked", "rreading") \/ ReadEnd(p, "rreading", "rhit", "rmiss")
  \/ Release(p, "rhit")
  \/ (Protocol = "rw-double-checked" /\ (Upgrade1(p) \/ Upgrade2(p)))
  \/ (Protocol = "rlock-write" /\ (WriteBegin(p, "rmiss", "rwriting") \/ WriteEnd(p, "rwriting", "rhit")))

Next == \E p \in Procs : Proc(p)

Spec == Init /\ [][Next]_vars

NoRace == \A p \in writing : writing = {p} /\ reading \subseteq {p}
OneEntry ==
  /\ \A f \in Fields : created[f] <= 1
  /\ \A p, q \in Procs : pc[p] = "done" /\ pc[q] = "done" /\ want[p] = want[q] => got[p] = got[q] /\ got[p] # 0
LocksSound == (wlock # 0 => rlocks \subseteq {wlock}) 
=============================================================================
