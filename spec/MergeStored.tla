---------------------------- MODULE MergeStored ----------------------------
(***************************************************************************)
(* Operational model of how a merge carries stored fields (merge.go:       *)
(* mergeFields, mergeStoredAndRemap): the merged field numbering is _id    *)
(* first, then the union of the inputs' field names in sorted order; the   *)
(* inputs' field lists are compared position by position with the first    *)
(* input's (fieldsSame); a segment without deletions is then copied as     *)
(* bytes - its stored records keep the segment's own field numbers - and   *)
(* otherwise every record is re-encoded with the numbers remapped by name. *)
(* Law (DESIGN 2.4, C05): every surviving document keeps its stored        *)
(* values under the same field NAMES.  TLC checks it for every small       *)
(* instance and refutes two wrong variants of the fast-path condition.     *)
(*                                                                         *)
(* Field names are 1..NF in sorted order, 0 stands for _id.  An input is   *)
(* [fields, docs, drops]: the set of its field names (a segment built from *)
(* an empty batch has no fields at all, not even _id), its number of       *)
(* documents - each stores one value per field of the segment - and the    *)
(* deleted ones.                                                           *)
(***************************************************************************)
EXTENDS Integers, Sequences, FiniteSets, TLC

CONSTANTS NF, NS, MaxDocs,
          Mut     \* "none" | "lenEq" | "liveOnly"

Names == 1..NF
SortSet(S) == LET RECURSIVE R(_) R(T) == IF T = {} THEN <<>> ELSE LET m == CHOOSE x \in T : \A y \in T : x <= y IN <<m>> \o R(T \ {m}) IN R(S)

\* Fields() of an input: _id first, then its names in sorted order; nothing for a segment without documents
FieldList(s) == IF s.docs = 0 THEN <<>> ELSE <<0>> \o SortSet(s.fields)

\* mergeFields: the loop compares every field of every input with the first input's list at the same position
\* (an input with an empty list never disagrees)
SamePositions(lists) ==
  \A k \in 1..Len(lists) : \A i \in 1..Len(lists[k]) :
     Len(lists[1]) = Len(lists[k]) /\ lists[1][i] = lists[k][i]

Merged(ins) == <<0>> \o SortSet(UNION { { FieldList(ins[k])[i] : i \in 1..Len(FieldList(ins[k])) } : k \in 1..Len(ins) } \ {0})

Survivors(s) == (1..s.docs) \ s.drops

FieldsSame(ins) ==
  LET lists == [k \in 1..Len(ins) |-> FieldList(ins[k])]
      same  == SamePositions(lists)
  IN  CASE Mut = "lenEq" -> Len(Merged(ins)) = Len(lists[1])
        [] Mut = "liveOnly" ->
             same \/ (LET live == SelectSeq(lists, LAMBDA l : TRUE)     \* recomputed over the inputs that still have survivors
                          idx  == SelectSeq([k \in 1..Len(ins) |-> k], LAMBDA k : Survivors(ins[k]) # {})
                      IN  idx # <<>> /\ SamePositions([j \in 1..Len(idx) |-> lists[idx[j]]]))
        [] OTHER -> same

\* the names under which the merged segment shows the stored values of a surviving document of input k
ShownNames(ins, k) ==
  LET own == FieldList(ins[k])
      m   == Merged(ins)
  IN  IF FieldsSame(ins) /\ ins[k].drops = {}
      THEN { IF i <= Len(m) THEN m[i] ELSE -1 : i \in 1..Len(own) }      \* copied bytes: the segment's numbers read with the merged table
      ELSE { own[i] : i \in 1..Len(own) }                                 \* re-encoded: remapped by name

VARIABLE ins
Init == ins \in [1..NS -> [fields : SUBSET Names, docs : 0..MaxDocs, drops : SUBSET (1..MaxDocs)]]
Next == UNCHANGED ins
Spec == Init /\ [][Next]_ins

WellFormed == \A k \in 1..NS : ins[k].drops \subseteq 1..ins[k].docs

NamesKept ==
  WellFormed => \A k \in 1..NS : Survivors(ins[k]) # {} =>
     ShownNames(ins, k) = { FieldList(ins[k])[i] : i \in 1..Len(FieldList(ins[k])) }
=============================================================================
