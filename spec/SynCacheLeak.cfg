SPECIFICATION Spec
CONSTANTS
  Procs = {1, 2, 3}
  Emit = FALSE
  Leak = TRUE
INVARIANTS LockFree OneEntry Served
CHECK_DEADLOCK FALSE
