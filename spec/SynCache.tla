------------------------------ MODULE SynCache ------------------------------
(***************************************************************************)
(* The thesaurus cache of a segment at the grain of its critical sections  *)
(* (synonym_cache.go: loadOrCreate).  A look-up is: a section under the    *)
(* read lock (a hit returns the entry); after a miss, with no lock held, a *)
(* second section under the write lock that looks again and creates the    *)
(* entry if it is still absent.  Caches.tla checks the lock protocol step  *)
(* by step (no overlapping map accesses); this module is its abstraction   *)
(* to whole sections - each action is one section, so TLC enumerates every *)
(* order in which the sections of concurrent look-ups can run - and it is  *)
(* the one that is bound to the code: every maximal behaviour is emitted   *)
(* and replayed on the real cache, the look-ups parked at the verif gate   *)
(* between their two sections (harness: zx syncache).                      *)
(*                                                                         *)
(*   LockFree      no lock is held between sections (a section that       *)
(*                 leaves the write lock behind blocks every later         *)
(*                 look-up and the segment's final release)                *)
(*   OneEntry      an entry is created at most once per thesaurus          *)
(*   Served        every finished look-up got the entry of its thesaurus   *)
(* Leak = TRUE is the wrong variant in which the second section returns    *)
(* on its repeated look-up without releasing the write lock.               *)
(***************************************************************************)
EXTENDS ZapCatalog, Json

CONSTANTS Procs, Emit, Leak

SBatch == <<D7, D8>>
SC == ContentOfBatch(SBatch, 1026)
Thes == <<fSyn, fSyn2>>

VARIABLES want, st, got, cache, created, wl, hist

vars == <<want, st, got, cache, created, wl, hist>>

Init ==
  /\ want \in [Procs -> 1..2]
  /\ st = [p \in Procs |-> "idle"] /\ got = [p \in Procs |-> 0]
  /\ cache = [k \in 1..2 |-> 0] /\ created = [k \in 1..2 |-> 0] /\ wl = 0 /\ hist = <<>>
  /\ Emit => PrintT(<<"TABLES", ToJson([batch |-> SBatch, names |-> Thes,
                                         exp |-> [k \in 1..2 |-> SetToSeq(SynonymsOf(SC, Thes[k], bA, {}))]])>>)

Rec(p, op) == hist' = Append(hist, [p |-> p, op |-> op])

\* first section (read lock): hit or miss
Look(p) ==
  /\ st[p] = "idle" /\ wl = 0
  /\ IF cache[want[p]] # 0
     THEN st' = [st EXCEPT ![p] = "done"] /\ got' = [got EXCEPT ![p] = cache[want[p]]]
     ELSE st' = [st EXCEPT ![p] = "missed"] /\ UNCHANGED got
  /\ Rec(p, "look") /\ UNCHANGED <<want, cache, created, wl>>

\* second section (write lock): look again, create if still absent
Fill(p) ==
  /\ st[p] = "missed" /\ wl = 0
  /\ IF cache[want[p]] # 0
     THEN /\ got' = [got EXCEPT ![p] = cache[want[p]]]
          /\ wl' = IF Leak THEN p ELSE 0
          /\ UNCHANGED <<cache, created>>
     ELSE /\ created' = [created EXCEPT ![want[p]] = @ + 1]
          /\ cache' = [cache EXCEPT ![want[p]] = 10 * created'[want[p]] + p]
          /\ got' = [got EXCEPT ![p] = cache'[want[p]]]
          /\ wl' = 0
  /\ st' = [st EXCEPT ![p] = "done"]
  /\ Rec(p, "fill") /\ UNCHANGED want

Finished == \A p \in Procs : st[p] = "done"

Done ==
  /\ Finished /\ hist[Len(hist)].op # "end"
  /\ hist' = Append(hist, [p |-> 0, op |-> "end"])
  /\ Emit => PrintT(<<"WALK", ToJson([want |-> [p \in 1..Cardinality(Procs) |-> want[p]], steps |-> hist])>>)
  /\ UNCHANGED <<want, st, got, cache, created, wl>>

Next == (\E p \in Procs : Look(p) \/ Fill(p)) \/ Done

Spec == Init /\ [][Next]_vars

LockFree == wl = 0
OneEntry == \A k \in 1..2 : created[k] <= 1
Served   == \A p \in Procs : st[p] = "done" => got[p] # 0 /\ got[p] = cache[want[p]]
=============================================================================
