SPECIFICATION Spec
CONSTANTS
  N = 5
  L = 4
  Emit = TRUE
INVARIANTS IterSound NextOnlyComplete
CHECK_DEADLOCK FALSE
