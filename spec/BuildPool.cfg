SPECIFICATION Spec
CONSTANTS
  MaxBuilds = 4
  Shapes = {"empty", "idonly", "big", "small", "syn", "mixed", "reject"}
  Modes = {2, 1026}
  Emit = TRUE
INVARIANTS BuildIndependent AllWF
CHECK_DEADLOCK FALSE
