SPECIFICATION Spec
CONSTANTS
  MaxDoc = 4
  ChunkSizes = {1, 2, 3, 5}
  MaxTerms = 2
  Kinds = {"int", "content"}
  Emit = TRUE
  Mut = "none"
INVARIANT RoundTrip
CHECK_DEADLOCK FALSE
