-------------------------------- MODULE Zapx --------------------------------
(***************************************************************************)
(* Root state machine of the library (DESIGN 2.3): segments in memory or   *)
(* mmapped, files, and the public lifecycle calls as actions.  The actions *)
(* take their data as parameters; Life.tla quantifies them over the        *)
(* catalogue (model checking / behaviour generation) and TraceLife.tla      *)
(* binds them to a trace recorded from the implementation.                 *)
(***************************************************************************)
EXTENDS ZapData

VARIABLES
  segs,    \* SegId -> [c: content, kind: "mem" | "mmap", refs: Nat]   (closed segments are removed)
  files,   \* FileId -> [c: content]      only complete files exist (C17/C18: OutFile.tla)
  lcm      \* doc-value chunk size of the scenario (LegacyChunkMode; not recorded in files)

lifeVars == <<segs, files, lcm>>

Put(f, k, v) == (k :> v) @@ [x \in DOMAIN f \ {k} |-> f[x]]
Del(f, k)    == [x \in DOMAIN f \ {k} |-> f[x]]

LifeInit == segs = <<>> /\ files = <<>> /\ lcm = 1024

IsOpen(sid) == sid \in DOMAIN segs

(* ZapPlugin.New *)
Build(sid, batch, mode) ==
  /\ ~IsOpen(sid)
  /\ segs' = Put(segs, sid, [c |-> ContentOfBatch(batch, mode), kind |-> "mem", refs |-> 1])
  /\ UNCHANGED <<files, lcm>>

(* a batch rejected by the field validator yields no segment and changes nothing *)
BuildRejected == UNCHANGED lifeVars

(* SegmentBase.Persist / WriteTo *)
Persist(sid, k) ==
  /\ IsOpen(sid) /\ segs[sid].kind = "mem"
  /\ files' = Put(files, k, [c |-> segs[sid].c])
  /\ UNCHANGED <<segs, lcm>>

(* ZapPlugin.Open *)
Open(sid, k) ==
  /\ k \in DOMAIN files /\ ~IsOpen(sid)
  /\ segs' = Put(segs, sid, [c |-> files[k].c, kind |-> "mmap", refs |-> 1])
  /\ UNCHANGED <<files, lcm>>

ValidDrops(ins, Ds) ==
  /\ Len(ins) = Len(Ds)
  /\ \A i \in 1..Len(ins) : IsOpen(ins[i]) /\ Ds[i] \subseteq 0..(Count(segs[ins[i]].c) - 1)

MergeResult(ins, Ds, mode) ==
  MergedContent([i \in 1..Len(ins) |-> segs[ins[i]].c], Ds, mode)

(* ZapPlugin.Merge, successful *)
Merge(k, ins, Ds, mode) ==
  /\ Len(ins) >= 1 /\ ValidDrops(ins, Ds)
  /\ files' = Put(files, k, [c |-> MergeResult(ins, Ds, mode)])
  /\ UNCHANGED <<segs, lcm>>

(* Segment.Close / DecRef to zero (reference counting proper: RefCount.tla) *)
Close(sid) ==
  /\ IsOpen(sid)
  /\ segs' = Del(segs, sid)
  /\ UNCHANGED <<files, lcm>>

Reset(newLcm) == segs' = <<>> /\ files' = <<>> /\ lcm' = newLcm

----------------------------------------------------------------------------
(* Design-level invariants *)

\* a re-opened file has the content that was persisted / merged into it, and
\* every open segment's content is internally consistent
ContentWF(c) ==
  /\ c.dvMin \subseteq c.dvMax
  /\ \A i \in 1..Len(c.docs) : DOMAIN c.docs[i].dv \subseteq c.dvMax
  /\ (c.fields # <<>> => c.fields[1] = IDName)
  /\ \A i \in 1..(Len(c.fields) - 2) : LexLess(c.fields[i + 1], c.fields[i + 2])
  /\ \A i \in 1..Len(c.docs) : \A ft \in DOMAIN c.docs[i].ents : c.fields = <<>> \/ ft[1] \in RangeOf(c.fields)

AllWF == (\A s \in DOMAIN segs : ContentWF(segs[s].c)) /\ (\A k \in DOMAIN files : ContentWF(files[k].c))

\* observation functions agree: the dictionary count of a term is the size of its postings list,
\* DocNumbers of all ids is every document, postings are strictly increasing
ObsConsistent(c) ==
  /\ \A f \in RangeOf(c.fields) :
       LET d == DictOf(c, f) IN
       /\ \A k \in 1..Len(d) : d[k].n = Len(PostingsOf(c, f, d[k].t)) /\ d[k].n > 0
       /\ \A k \in 1..(Len(d) - 1) : LexLess(d[k].t, d[k + 1].t)
  /\ \A ft \in PairsOf(c) :
       LET p == PostingsOf(c, ft[1], ft[2]) IN \A k \in 1..(Len(p) - 1) : p[k].d < p[k + 1].d
  /\ DocNumbersOf(c, { c.docs[i].id : i \in 1..Len(c.docs) }) = 0..(Count(c) - 1)

AllObsConsistent == \A s \in DOMAIN segs : ObsConsistent(segs[s].c)
=============================================================================
