SPECIFICATION Spec
CONSTANTS
  MaxBatch = 2
  MaxSegs = 3
  MaxMergeIn = 2
  Docs = {1, 7, 8}
  Modes = {2}
  Emit = TRUE
VIEW View
INVARIANTS AllWF AllObsConsistent OpenedEqualsFile
CHECK_DEADLOCK FALSE
