------------------------------ MODULE VecCache ------------------------------
(***************************************************************************)
(* The per-segment vector index cache (DESIGN 4 C16; entry.aged abstracts   *)
(* the moving average: an idle expiry pass ages an entry, a hit renews it).  *)
(* The per-segment vector index cache.  A search handle is  *)
(* obtained with Open(field, except) - which loads the cached native index *)
(* or creates and caches it -, used for searches, and closed; an expiry    *)
(* pass (Tick) may evict an entry that is idle and unreferenced, releasing *)
(* the native index asynchronously (EngineClose); closing the segment      *)
(* releases everything.                                                    *)
(*                                                                         *)
(*   HandleSafe         an open handle's index is live                     *)
(*   ClosedOnce         every native index is released at most once        *)
(*   NoLeak             after SegClose and the pending releases, none live *)
(*   SearchHistoryFree  a search returns TopK of (content, q, k, eligible, *)
(*                      except of *its own* handle) - by construction of   *)
(*                      the expected results carried by the walks          *)
(*                                                                         *)
(* Open is two critical sections, as in the code (loadFromCache): a lookup  *)
(* under the read lock (a hit takes a reference there) and, after a miss,  *)
(* a second section under the write lock that looks again - another        *)
(* searcher may have created the entry in between - and loads or creates.  *)
(* Counted = FALSE is the wrong variant in which the second look-up hands  *)
(* out the index without taking a reference (TLC must refute it).          *)
(*                                                                         *)
(* Eviction is allowed, never required (a different expiry policy is not a *)
(* violation).  Every edge of the state graph is emitted as a walk with    *)
(* the expected search results; the harness replays them with the          *)
(* synchronous expiry hook and compares results and engine counters.       *)
(***************************************************************************)
EXTENDS ZapCatalog, Json

CONSTANTS Handles, MaxSteps, Emit, Counted

VARIABLES entry,     \* [gen, refs] or None
          hs,        \* handle -> [st: "none" | "missed" | "open" | "closed", gen, ex, filter]
          live, closes, pending, segOpen, ngen, hist

vars == <<entry, hs, live, closes, pending, segOpen, ngen, hist>>
View == <<entry, hs, live, closes, pending, segOpen, ngen>>

None == [gen |-> 0, refs |-> 0, aged |-> FALSE]

\* the segment: one vector field (L2), four documents (five vectors), no ties for the query
vcid(n) == <<118, 48 + n>>
VSeg == << Doc(vcid(0), << IdF(vcid(0)), Vec(fVec, <<0, 0>>, 0) >>, <<>>),
           Doc(vcid(1), << IdF(vcid(1)), Vec(fVec, <<3, 0>>, 0) >>, <<>>),
           Doc(vcid(2), << IdF(vcid(2)), Vec(fVec, <<0, 5>>, 0) >>, <<>>),
           \* a document with two vectors (the near one is its second): the cached document -> vectors map has a list here
           Doc(vcid(3), << IdF(vcid(3)), Vec(fVec, <<9, 9, 2, 1>>, 0) >>, <<>>) >>
VC == ContentOfBatch(VSeg, 1026)
Query == <<1, 0>>
Excepts == SUBSET {0, 1}
Eligs == { {0, 1}, {1, 3}, {2, 3}, {0, 1, 2, 3} }

\* the unique top-k answer (no ties in this content)
Expected(k, ex, filter, elig) ==
  LET all == FieldVecs(VC, fVec)
      liveS == SelectSeq(all, LAMBDA x : x.d \notin ex /\ (filter => x.d \in elig))
      sc == [i \in 1..Len(liveS) |-> [d |-> liveS[i].d, s |-> Score(0, Query, liveS[i].v)]]
      srt == SortSeq(sc, LAMBDA a, b : a.s < b.s)
  IN  SubSeq(srt, 1, IF k < Len(srt) THEN k ELSE Len(srt))

ASSUME \A k \in {1, 3}, ex \in Excepts, el \in Eligs, f \in BOOLEAN :
         TopKOK(VC, fVec, Query, k, ex, f, el, RangeOf(Expected(k, ex, f, el)))

Init ==
  /\ entry = None /\ hs = [h \in Handles |-> [st |-> "none", gen |-> 0, ex |-> {}, filter |-> FALSE]]
  /\ live = {} /\ closes = [g \in 1..MaxSteps |-> 0] /\ pending = {} /\ segOpen = TRUE /\ ngen = 0 /\ hist = <<>>
  /\ Emit => PrintT(<<"TABLES", ToJson([batch |-> VSeg, query |-> Query])>>)

Rec(step) ==
  /\ hist' = Append(hist, step)
  /\ Emit => PrintT(<<"WALK", ToJson([steps |-> hist'])>>)

Step(op, h, ex, filter, k, elig, exp) ==
  [op |-> op, h |-> h, ex |-> SortInts(ex), filter |-> filter, k |-> k, elig |-> SortInts(elig), exp |-> exp]

\* first critical section (read lock): a hit takes its reference here; a miss leaves with nothing
OpenFast(h, ex, filter) ==
  /\ segOpen /\ hs[h].st = "none" /\ Len(hist) < MaxSteps
  /\ IF entry = None
     THEN /\ hs' = [hs EXCEPT ![h] = [st |-> "missed", gen |-> 0, ex |-> ex, filter |-> filter]]
          /\ Rec(Step("openmiss", h, ex, filter, 0, {}, <<>>))
          /\ UNCHANGED entry
     ELSE /\ entry' = [entry EXCEPT !.refs = @ + 1, !.aged = FALSE]
          /\ hs' = [hs EXCEPT ![h] = [st |-> "open", gen |-> entry.gen, ex |-> ex, filter |-> filter]]
          /\ Rec(Step("open", h, ex, filter, 0, {}, <<>>))
  /\ UNCHANGED <<live, ngen, closes, pending, segOpen>>

\* second critical section (write lock) after a miss: look again, load or create
OpenSlow(h) ==
  /\ segOpen /\ hs[h].st = "missed" /\ Len(hist) < MaxSteps
  /\ IF entry = None
     THEN /\ ngen' = ngen + 1 /\ live' = live \cup {ngen + 1}
          /\ entry' = [gen |-> ngen + 1, refs |-> 1, aged |-> FALSE]
     ELSE /\ entry' = [entry EXCEPT !.refs = IF Counted THEN @ + 1 ELSE @, !.aged = FALSE]
          /\ UNCHANGED <<ngen, live>>
  /\ hs' = [hs EXCEPT ![h].st = "open", ![h].gen = entry'.gen]
  /\ Rec(Step("openslow", h, hs[h].ex, hs[h].filter, 0, {}, <<>>))
  /\ UNCHANGED <<closes, pending, segOpen>>

Search(h, k, elig) ==
  /\ hs[h].st = "open" /\ Len(hist) < MaxSteps
  /\ Rec(Step("search", h, hs[h].ex, hs[h].filter, k, elig, Expected(k, hs[h].ex, hs[h].filter, elig)))
  /\ UNCHANGED <<entry, hs, live, closes, pending, segOpen, ngen>>

\* closing a handle drops one reference of whatever entry the field has now
CloseH(h) ==
  /\ hs[h].st = "open" /\ Len(hist) < MaxSteps
  /\ hs' = [hs EXCEPT ![h].st = "closed"]
  /\ entry' = IF entry = None THEN None ELSE [entry EXCEPT !.refs = @ - 1]
  /\ Rec(Step("close", h, {}, FALSE, 0, {}, <<>>))
  /\ UNCHANGED <<live, closes, pending, segOpen, ngen>>

\* expiry pass: an unreferenced entry may be evicted (its index is released asynchronously)
Tick ==
  /\ segOpen /\ Len(hist) < MaxSteps
  /\ \/ /\ entry # None /\ entry.refs <= 0
        /\ pending' = pending \cup {entry.gen} /\ entry' = None
     \/ /\ entry' = IF entry = None THEN None ELSE [entry EXCEPT !.aged = TRUE]   \* an idle pass ages the entry
        /\ UNCHANGED pending
  /\ Rec(Step("tick", 0, {}, FALSE, 0, {}, <<>>))
  /\ UNCHANGED <<hs, live, closes, segOpen, ngen>>

EngineClose(g) ==
  /\ g \in pending
  /\ pending' = pending \ {g} /\ live' = live \ {g} /\ closes' = [closes EXCEPT ![g] = @ + 1]
  /\ UNCHANGED <<entry, hs, segOpen, ngen, hist>>

\* the segment is closed once every handle has been closed (use after close is outside the domain)
SegClose ==
  /\ segOpen /\ \A h \in Handles : hs[h].st \notin {"open", "missed"} /\ Len(hist) < MaxSteps
  /\ segOpen' = FALSE
  /\ pending' = IF entry = None THEN pending ELSE pending \cup {entry.gen}
  /\ entry' = None
  /\ Rec(Step("segclose", 0, {}, FALSE, 0, {}, <<>>))
  /\ UNCHANGED <<hs, live, closes, ngen>>

Next ==
  \/ \E h \in Handles, ex \in Excepts, f \in BOOLEAN : OpenFast(h, ex, f)
  \/ \E h \in Handles : OpenSlow(h)
  \/ \E h \in Handles, k \in {1, 3}, el \in Eligs : Search(h, k, IF hs[h].filter THEN el ELSE {})
  \/ \E h \in Handles : CloseH(h)
  \/ Tick \/ SegClose
  \/ \E g \in pending : EngineClose(g)

Spec == Init /\ [][Next]_vars

HandleSafe == \A h \in Handles : hs[h].st = "open" => hs[h].gen \in live /\ hs[h].gen \notin pending
ClosedOnce == \A g \in 1..MaxSteps : closes[g] <= 1
NoLeak     == (~segOpen /\ pending = {}) => live = {}
RefsExact  == entry # None => entry.refs = Cardinality({ h \in Handles : hs[h].st = "open" /\ hs[h].gen = entry.gen })
=============================================================================
