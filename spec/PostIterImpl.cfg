SPECIFICATION Spec
CONSTANTS
  N = 5
  L = 4
  Mut = "none"
  ChunkSizes = {1, 2, 3, 5}
INVARIANT Refines
CHECK_DEADLOCK FALSE
