------------------------------- MODULE ZapData -------------------------------
(***************************************************************************)
(* Abstract data of a zapx segment and the observation functions every     *)
(* query must agree with (DESIGN 2.2).  Pure operators, no variables.      *)
(*                                                                         *)
(* Byte strings are sequences of 0..255.  A batch is a sequence of         *)
(* documents in the schema of DESIGN Appendix A (as emitted by the         *)
(* harness and by ZapCatalog).  A segment *content* is                     *)
(*   [docs, fields, dvMin, dvMax, mode, prov]                              *)
(* where docs is a sequence of normalised documents.                       *)
(***************************************************************************)
EXTENDS Integers, Sequences, FiniteSets, SequencesExt, FiniteSetsExt, Folds, TLC

IDName == <<95, 105, 100>>          \* "_id"
Sentinel == -1                      \* the all-ones "dropped" document number

----------------------------------------------------------------------------
(* byte-string order = Go string comparison = vellum key order *)
MinOf(S) == CHOOSE x \in S : \A y \in S : x <= y
MaxOf(S) == CHOOSE x \in S : \A y \in S : x >= y

LexLess(a, b) ==
  LET n    == IF Len(a) < Len(b) THEN Len(a) ELSE Len(b)
      diff == {i \in 1..n : a[i] # b[i]}
  IN  IF diff = {} THEN Len(a) < Len(b)
      ELSE LET i == MinOf(diff) IN a[i] < b[i]

LexLeq(a, b) == a = b \/ LexLess(a, b)

SortBytes(S) == SetToSortSeq(S, LexLess)

RangeOf(s) == {s[i] : i \in 1..Len(s)}

SumSeq(s) == FoldLeft(LAMBDA acc, x : acc + x, 0, s)

Flatten(ss) == FoldLeft(LAMBDA acc, x : acc \o x, <<>>, ss)

SortInts(S) == SetToSortSeq(S, <)

----------------------------------------------------------------------------
(* Normalisation of one input document (what interim.convert /            *)
(* processDocument are meant to compute).                                  *)

AllInst(d)  == d.composite \o d.fields           \* visiting order of the builder
TextInst(d) == SelectSeq(AllInst(d), LAMBDA x : x.kind = 0)
NamedText(d, f) == SelectSeq(TextInst(d), LAMBDA x : x.name = f)

TermsOfInsts(insts) ==
  UNION { { insts[i].toks[j].t : j \in 1..Len(insts[i].toks) } : i \in 1..Len(insts) }

TokIdx(inst, t) == { j \in 1..Len(inst.toks) : inst.toks[j].t = t }

\* a location names the posting's own field unless the first same-named
\* instance gives an explicit source field (composite fields)
ResolveLoc(l, f, i) ==
  [f |-> IF l.f = <<>> \/ i > 1 THEN f ELSE l.f, p |-> l.p, s |-> l.s, e |-> l.e, ap |-> l.ap]

EntryOf(insts, f, t) ==
  LET per == [i \in 1..Len(insts) |->
                 LET js == TokIdx(insts[i], t) IN
                 IF js = {} THEN [fr |-> 0, locs |-> <<>>]
                 ELSE LET tk == insts[i].toks[CHOOSE j \in js : TRUE] IN
                      [fr |-> tk.fr,
                       locs |-> [k \in 1..Len(tk.locs) |-> ResolveLoc(tk.locs[k], f, i)]]]
      fr  == SumSeq([i \in 1..Len(insts) |-> per[i].fr])
      nm  == SumSeq([i \in 1..Len(insts) |-> insts[i].len])
  IN  [fr |-> fr, nm |-> IF fr = 0 THEN 0 ELSE nm,
       locs |-> Flatten([i \in 1..Len(insts) |-> per[i].locs])]

TextNames(d) == { TextInst(d)[i].name : i \in 1..Len(TextInst(d)) }

FTPairs(d) == UNION { { <<f, t>> : t \in TermsOfInsts(NamedText(d, f)) } : f \in TextNames(d) }

StoredInst(d) == SelectSeq(d.fields, LAMBDA x : x.stored)

StoredOfDoc(d) ==
  LET idv   == SelectSeq(StoredInst(d), LAMBDA x : x.name = IDName)
      rest  == SelectSeq(StoredInst(d), LAMBDA x : x.name # IDName)
      names == SortBytes({ rest[i].name : i \in 1..Len(rest) })
      ent(x) == [f |-> x.name, ty |-> x.typ, v |-> x.value, ap |-> x.ap]
  IN  << [f |-> IDName, ty |-> 116, v |-> idv[1].value, ap |-> <<>>] >>
      \o Flatten([k \in 1..Len(names) |->
            LET xs == SelectSeq(rest, LAMBDA x : x.name = names[k])
            IN  [i \in 1..Len(xs) |-> ent(xs[i])]])

SynInst(d) == SelectSeq(d.fields, LAMBDA x : x.kind = 1)
VecInst(d) == SelectSeq(d.fields, LAMBDA x : x.kind = 2)

\* synonym definitions: set of <<thesaurus, lhs term, synonym>>
SynTriples(d) ==
  UNION { UNION { { <<SynInst(d)[i].name, SynInst(d)[i].defs[j].t, SynInst(d)[i].defs[j].syns[k]>> :
                      k \in 1..Len(SynInst(d)[i].defs[j].syns) } :
                  j \in 1..Len(SynInst(d)[i].defs) } :
          i \in 1..Len(SynInst(d)) }

\* vectors: sequence of [f, vec, dims, metric, opt]
VecsOfDoc(d) == [i \in 1..Len(VecInst(d)) |->
                   [f |-> VecInst(d)[i].name, vec |-> VecInst(d)[i].vec, dims |-> VecInst(d)[i].dims,
                    metric |-> VecInst(d)[i].metric, opt |-> VecInst(d)[i].opt]]

NormDoc(d, dvFields) ==
  LET pairs == FTPairs(d) IN
  [ id     |-> d.id,
    ents   |-> [ft \in pairs |-> EntryOf(NamedText(d, ft[1]), ft[1], ft[2])],
    stored |-> StoredOfDoc(d),
    dv     |-> [f \in { f \in dvFields : \E ft \in pairs : ft[1] = f } |-> { ft[2] : ft \in { x \in pairs : x[1] = f } }],
    syn    |-> SynTriples(d),
    vecs   |-> VecsOfDoc(d) ]

----------------------------------------------------------------------------
(* Batch level *)

NamesOfBatch(b) == UNION { { AllInst(b[i])[j].name : j \in 1..Len(AllInst(b[i])) } : i \in 1..Len(b) }

\* the loader reads a field record at file offset 0 as absent: an empty batch has no fields
FieldsOfBatch(b) ==
  IF Len(b) = 0 THEN <<>> ELSE <<IDName>> \o SortBytes(NamesOfBatch(b) \ {IDName})

DvFieldsOfBatch(b) ==
  UNION { { AllInst(b[i])[j].name : j \in { j \in 1..Len(AllInst(b[i])) : AllInst(b[i])[j].dv } } : i \in 1..Len(b) }

ThesNamesOfBatch(b) ==
  UNION { { SynInst(b[i])[j].name : j \in 1..Len(SynInst(b[i])) } : i \in 1..Len(b) }

ContentOfBatch(b, mode) ==
  LET dvf == IF Len(b) = 0 THEN {} ELSE DvFieldsOfBatch(b) IN
  [ docs   |-> [i \in 1..Len(b) |-> NormDoc(b[i], dvf)],
    fields |-> FieldsOfBatch(b),
    dvMin  |-> dvf,
    dvMax  |-> dvf,
    dvx    |-> dvf,
    mode   |-> mode,
    prov   |-> "built" ]

----------------------------------------------------------------------------
(* Observation functions of a content *)

Count(c) == Len(c.docs)

HitOf(c, i, f, t) ==
  LET e == c.docs[i].ents[<<f, t>>] IN [d |-> i - 1, fr |-> e.fr, nm |-> e.nm, locs |-> e.locs]

HasFT(c, i, f, t) == <<f, t>> \in DOMAIN c.docs[i].ents

PostingsOf(c, f, t) ==
  LET idx == SelectSeq([i \in 1..Len(c.docs) |-> i], LAMBDA i : HasFT(c, i, f, t))
  IN  [k \in 1..Len(idx) |-> HitOf(c, idx[k], f, t)]

TermsOf(c, f) ==
  UNION { { ft[2] : ft \in { x \in DOMAIN c.docs[i].ents : x[1] = f } } : i \in 1..Len(c.docs) }

PairsOf(c) == UNION { DOMAIN c.docs[i].ents : i \in 1..Len(c.docs) }

\* terms of field f per document, as a sequence of sets
DocTerms(c, f) == [i \in 1..Len(c.docs) |-> { ft[2] : ft \in { x \in DOMAIN c.docs[i].ents : x[1] = f } }]

\* number of documents per term (one pass over the documents)
TermBag(c, f) ==
  LET dt  == DocTerms(c, f)
      all == UNION { dt[i] : i \in 1..Len(dt) }
  IN  FoldLeft(LAMBDA b, i : FoldSet(LAMBDA t, bb : [bb EXCEPT ![t] = @ + 1], b, dt[i]),
               [t \in all |-> 0], [i \in 1..Len(dt) |-> i])

DictOf(c, f) ==
  LET bag == TermBag(c, f)
      ts  == SortBytes(DOMAIN bag)
  IN  [k \in 1..Len(ts) |-> [t |-> ts[k], n |-> bag[ts[k]]]]

StoredOf(c, d) == IF d < Len(c.docs) THEN c.docs[d + 1].stored ELSE <<>>
DocIDOf(c, d)  == IF d < Len(c.docs) THEN c.docs[d + 1].id ELSE <<>>

DocNumbersOf(c, ids) == { i - 1 : i \in { i \in 1..Len(c.docs) : c.docs[i].id \in ids } }

DvOf(c, d, f) ==
  IF d < Len(c.docs) /\ f \in DOMAIN c.docs[d + 1].dv THEN c.docs[d + 1].dv[f] ELSE {}

\* fields that have doc-value data among the documents of a content
DvData(docs) == UNION { DOMAIN docs[i].dv : i \in 1..Len(docs) }

ThesNamesOf(c) == UNION { { x[1] : x \in c.docs[i].syn } : i \in 1..Len(c.docs) }
ThesTermsOf(c, th) == UNION { { x[2] : x \in { y \in c.docs[i].syn : y[1] = th } } : i \in 1..Len(c.docs) }
SynonymsOf(c, th, t, ex) ==
  UNION { { [s |-> x[3], d |-> i - 1] : x \in { y \in c.docs[i].syn : y[1] = th /\ y[2] = t } } :
          i \in { i \in 1..Len(c.docs) : (i - 1) \notin ex } }

----------------------------------------------------------------------------
(* Vectors: every sub-vector of every vector field instance, with its document *)
SubVecs(v) == [k \in 1..(Len(v.vec) \div v.dims) |-> SubSeq(v.vec, (k - 1) * v.dims + 1, k * v.dims)]

FieldVecs(c, f) ==
  Flatten([i \in 1..Len(c.docs) |->
    Flatten([j \in 1..Len(c.docs[i].vecs) |->
      IF c.docs[i].vecs[j].f # f THEN <<>>
      ELSE LET sv == SubVecs(c.docs[i].vecs[j]) IN
           [k \in 1..Len(sv) |-> [d |-> i - 1, v |-> sv[k], metric |-> c.docs[i].vecs[j].metric]]])])

VecFieldsOf(c) == UNION { { c.docs[i].vecs[j].f : j \in 1..Len(c.docs[i].vecs) } : i \in 1..Len(c.docs) }

\* squared Euclidean distance (metric 0) or dot product (inner product and cosine on pre-normalised input)
Score(metric, q, v) ==
  IF metric = 0 THEN SumSeq([i \in 1..Len(q) |-> (q[i] - v[i]) * (q[i] - v[i])])
  ELSE SumSeq([i \in 1..Len(q) |-> q[i] * v[i]])
Better(metric, a, b) == IF metric = 0 THEN a < b ELSE a > b

\* below this many vectors the index is exact (flat); above, clustered (approximate)
ExactBelow == 1000

\* TopK as a predicate on the returned set r of [d, s] pairs (ties in any order, equal pairs collapse)
TopKOK(c, f, q, k, ex, filter, elig, r) ==
  LET all == FieldVecs(c, f) IN
  IF all = <<>> \/ Len(q) # Len(all[1].v) THEN r = {}
  ELSE
    LET metric == all[1].metric
        liveS  == SelectSeq(all, LAMBDA x : x.d \notin ex /\ (filter => x.d \in elig))
        scored == [i \in 1..Len(liveS) |-> [d |-> liveS[i].d, s |-> Score(metric, q, liveS[i].v)]]
        cand   == RangeOf(scored)
        kk     == IF k < Len(scored) THEN k ELSE Len(scored)
    IN  /\ r \subseteq cand
        /\ Cardinality(r) <= k
        /\ (Len(all) < ExactBelow =>
             IF kk = 0 THEN r = {}
             ELSE LET ss    == SortSeq([i \in 1..Len(scored) |-> scored[i].s], LAMBDA a, b : Better(metric, a, b))
                      worst == ss[kk]
                      nb    == Cardinality({ i \in 1..Len(scored) : Better(metric, scored[i].s, worst) })
                      sb    == { x \in cand : Better(metric, x.s, worst) }
                      ties  == { x \in cand : x.s = worst }
                  IN  /\ sb \subseteq r /\ r \subseteq sb \cup ties
                      /\ Cardinality(r \cap ties) >= 1 /\ Cardinality(r \cap ties) <= kk - nb)

NumVectors(c, f) == Len(FieldVecs(c, f))

----------------------------------------------------------------------------
(* Merge law (declarative): survivors in segment order then document order *)

SurvivorIdx(c, D) == SelectSeq([i \in 1..Len(c.docs) |-> i], LAMBDA i : (i - 1) \notin D)
SurvivorsOf(c, D) == [k \in 1..Len(SurvivorIdx(c, D)) |-> c.docs[SurvivorIdx(c, D)[k]]]

\* new numbers of one input, given how many survivors precede it
\* (pre[i] = number of dropped documents among the first i-1)
NewDocNumsOf(c, D, base) ==
  LET n   == Len(c.docs)
      pre == FoldLeft(LAMBDA acc, i : Append(acc, acc[i] + (IF (i - 1) \in D THEN 1 ELSE 0)),
                      <<0>>, [i \in 1..n |-> i])
  IN  [i \in 1..n |-> IF (i - 1) \in D THEN Sentinel ELSE base + (i - 1) - pre[i]]

NumSurvivors(c, D) == Len(c.docs) - Cardinality({ d \in D : d < Len(c.docs) })

MergeBases(cs, Ds) ==
  [k \in 1..Len(cs) |-> SumSeq([j \in 1..(k - 1) |-> NumSurvivors(cs[j], Ds[j])])]

MergedMaps(cs, Ds) == [k \in 1..Len(cs) |-> NewDocNumsOf(cs[k], Ds[k], MergeBases(cs, Ds)[k])]

UnionFields(cs) == UNION { RangeOf(cs[k].fields) : k \in 1..Len(cs) }

MergedContent(cs, Ds, mode) ==
  LET docs == Flatten([k \in 1..Len(cs) |-> SurvivorsOf(cs[k], Ds[k])])
      uf   == UnionFields(cs)
  IN  [ docs   |-> docs,
        fields |-> IF uf = {} THEN <<>> ELSE <<IDName>> \o SortBytes(uf \ {IDName}),
        dvMin  |-> DvData(docs),
        dvMax  |-> UNION { cs[k].dvMax : k \in 1..Len(cs) },
        \* exactly: the merger looks at an input for a field only if the input has a dictionary for it (at least
        \* one term, whatever the deletions); the field keeps its doc-value section when such an input had one
        dvx    |-> { f \in UNION { cs[k].dvx : k \in 1..Len(cs) } :
                       \E k \in 1..Len(cs) : f \in cs[k].dvx /\ TermsOf(cs[k], f) # {} },
        mode   |-> mode,
        prov   |-> "merged" ]

=============================================================================
