------------------------------ MODULE MergeImpl ------------------------------
(***************************************************************************)
(* Operational model of the inverted-index merge of one field              *)
(* (enumerator.go; mergeAndPersistInvertedSection: k-way enumeration of    *)
(* the inputs' dictionaries with the empty-key rule, per-term cardinality  *)
(* pre-pass that fixes the chunk size, per-(term, input) copy of the       *)
(* surviving hits with renumbering into accumulators that are reused from  *)
(* term to term, finishTerm with the single-hit rule), checked by TLC      *)
(* against the declarative merge law for every small instance (DESIGN 2.4, *)
(* C06): merged postings of a term = surviving hits of the inputs in input *)
(* order under the new numbering; a term without survivors disappears;     *)
(* (the single-hit encoding, when chosen, describes exactly that hit);     *)
(* the writer's chunk size is the one a reader derives from the merged     *)
(* cardinality; single-hit iff one hit, frequency 1, no location bytes.    *)
(*                                                                         *)
(* Terms are 0..NT-1 in dictionary order; term 0 is the empty key.         *)
(* An input is [post, hl, drops]: post[t] = set of its documents having t  *)
(* (frequency of a hit = (doc % 2) + 1), hl = the field has locations.     *)
(***************************************************************************)
EXTENDS Integers, Sequences, FiniteSets, TLC

CONSTANTS NT, ND, NS,
          Mut      \* "none" | "dropsI" | "noEmptyFlush" | "noNilCard" | "stale1hit": wrong variants TLC must refute

Terms == 0..(NT - 1)
Docs == 0..(ND - 1)

SortSet(S) == LET RECURSIVE R(_) R(T) == IF T = {} THEN <<>> ELSE LET m == CHOOSE x \in T : \A y \in T : x <= y IN <<m>> \o R(T \ {m}) IN R(S)
FreqOf(d) == (d % 2) + 1
NormOf(k, d) == 10 * k + d + 1        \* field length of document d of input k (positive)
SumTo(f, n) == LET RECURSIVE R(_) R(i) == IF i = 0 THEN 0 ELSE f[i] + R(i - 1) IN R(n)

\* renumbering: survivors consecutively in input order then document order
Surv(s) == Docs \ s.drops
Base(ins, k) == SumTo([j \in 1..Len(ins) |-> Cardinality(Surv(ins[j]))], k - 1)
NewNum(ins, k, d) == Base(ins, k) + Cardinality({ e \in Surv(ins[k]) : e < d })
NewCount(ins) == Base(ins, Len(ins) + 1)

\* inputs "in focus": those whose dictionary of the field is not empty
Focus(ins) == SelectSeq([k \in 1..Len(ins) |-> k], LAMBDA k : \E t \in Terms : ins[k].post[t] # {})

----------------------------------------------------------------------------
(* declarative law *)
DeclHits(ins, t) ==
  LET per(k) == LET ds == SortSet(ins[k].post[t] \ ins[k].drops)
                IN  [i \in 1..Len(ds) |-> [d |-> NewNum(ins, k, ds[i]), fr |-> FreqOf(ds[i]), nm |-> NormOf(k, ds[i]), hl |-> ins[k].hl]]
      RECURSIVE Cat(_)
      Cat(k) == IF k = 0 THEN <<>> ELSE Cat(k - 1) \o per(k)
  IN  Cat(Len(ins))

DeclDict(ins) == { t \in Terms : DeclHits(ins, t) # <<>> }
Decl1Hit(ins, t) == LET h == DeclHits(ins, t) IN Len(h) = 1 /\ h[1].fr = 1 /\ ~h[1].hl

\* chunk rule (mode 1026) of writer and reader
ChunkSize(card, maxDocs) == maxDocs \div ((card \div 2) + 1)      \* 2 plays the role of 1024 in the small model

----------------------------------------------------------------------------
(* enumerator: sequence of [t, i] (key, iterator index) in the order Current()/Next() produce them, with,
   at the first tuple of each key, the low indexes (for the cardinality pre-pass) *)
Keys(ins, k) == SortSet({ t \in Terms : ins[k].post[t] # {} })

Enumerate(ins, foc) ==
  LET n == Len(foc)
      ks == [i \in 1..n |-> Keys(ins, foc[i])]
      \* pos[i] = index of the current key of iterator i (Len+1 = exhausted)
      Cur(pos, i) == IF pos[i] <= Len(ks[i]) THEN ks[i][pos[i]] ELSE -1
      \* updateMatches(skipEmptyKey): lowest current key and the iterators that hold it
      Low(pos, skipEmpty) ==
        LET cand == { i \in 1..n : Cur(pos, i) # -1 /\ ~(skipEmpty /\ Cur(pos, i) = 0) } IN
        IF cand = {} THEN [k |-> -1, idxs |-> <<>>]
        ELSE LET m == CHOOSE x \in { Cur(pos, i) : i \in cand } : \A y \in { Cur(pos, i) : i \in cand } : x <= y
             IN  [k |-> m, idxs |-> SortSet({ i \in cand : Cur(pos, i) = m })]
      RECURSIVE Run(_, _, _)
      Run(pos, low, acc) ==
        IF low.k = -1 THEN acc
        ELSE LET tuples == [j \in 1..Len(low.idxs) |-> [t |-> low.k, i |-> low.idxs[j], lows |-> low.idxs, first |-> j = 1]]
                 pos2 == [i \in 1..n |-> IF \E j \in 1..Len(low.idxs) : low.idxs[j] = i THEN pos[i] + 1 ELSE pos[i]]
             IN  Run(pos2, Low(pos2, TRUE), acc \o tuples)
      pos0 == [i \in 1..n |-> 1]
  IN  Run(pos0, Low(pos0, FALSE), <<>>)

----------------------------------------------------------------------------
(* the merge loop *)
Impl(ins) ==
  LET foc == Focus(ins)
      en  == Enumerate(ins, foc)
      maxDocs == NewCount(ins)
      \* accumulators reused from term to term
      Acc0 == [hits |-> <<>>, locBytes |-> FALSE, lastDoc |-> 0, lastFreq |-> 0, lastNorm |-> 0, cs |-> 0, prev |-> -1, out |-> <<>>]
      \* finishTerm: write the postings of the previous term (if any hit) and reset the accumulators
      Finish(a, term) ==
        LET card == Len(a.hits)
            oneHit == card = 1 /\ ~a.locBytes /\ a.hits[1].d = a.lastDoc /\ a.lastFreq = 1
            rec == [t |-> term, hits |-> a.hits, oneHit |-> oneHit, cs |-> a.cs,
                    hit1 |-> IF oneHit THEN [d |-> a.hits[1].d, nm |-> a.lastNorm] ELSE [d |-> -1, nm |-> -1]]
        IN  [a EXCEPT !.out = IF card = 0 THEN a.out ELSE Append(a.out, rec),
                      !.hits = <<>>, !.locBytes = FALSE,
                      !.lastDoc = IF Mut = "stale1hit" THEN a.lastDoc ELSE 0,
                      !.lastFreq = IF Mut = "stale1hit" THEN a.lastFreq ELSE 0,
                      !.lastNorm = IF Mut = "stale1hit" THEN a.lastNorm ELSE 0]
      \* the code's prevTerm is a byte slice: nil before the first term and still nil after the empty key
      PrevIsNil(a) == a.prev = -1 \/ a.prev = 0
      Step(a, e) ==
        LET k == foc[e.i]
            \* "term changed": bytes.Equal(prevTerm, term) is true for (nil, empty key)
            changed == ~(a.prev = e.t \/ (PrevIsNil(a) /\ e.t = 0))
            a1 == IF changed /\ ~(Mut = "noEmptyFlush" /\ PrevIsNil(a)) THEN Finish(a, IF a.prev = -1 THEN 0 ELSE a.prev) ELSE a
            \* cardinality pre-pass at the first tuple of a key: over the inputs that hold the key, each with its own deletions
            newCard == SumTo([j \in 1..Len(e.lows) |->
                               LET kk == foc[e.lows[j]]
                                   dr == IF Mut = "dropsI" THEN (IF j <= Len(foc) THEN ins[foc[j]].drops ELSE {}) ELSE ins[kk].drops
                               IN  Cardinality(ins[kk].post[e.t] \ dr)], Len(e.lows))
            a2 == IF changed \/ (PrevIsNil(a1) /\ Mut # "noNilCard") THEN [a1 EXCEPT !.cs = IF maxDocs = 0 THEN 0 ELSE ChunkSize(newCard, maxDocs)] ELSE a1
            ds == SortSet(ins[k].post[e.t] \ ins[k].drops)
            add == [i \in 1..Len(ds) |-> [d |-> NewNum(ins, k, ds[i]), fr |-> FreqOf(ds[i]), nm |-> NormOf(k, ds[i]), hl |-> ins[k].hl]]
            a3 == [a2 EXCEPT !.hits = a2.hits \o add,
                             !.locBytes = a2.locBytes \/ (ins[k].hl /\ ds # <<>>),
                             !.lastDoc = IF ds = <<>> THEN 0 ELSE add[Len(add)].d,
                             !.lastFreq = IF ds = <<>> THEN 0 ELSE add[Len(add)].fr,
                             !.lastNorm = IF ds = <<>> THEN 0 ELSE add[Len(add)].nm,
                             !.prev = e.t]
        IN  a3
      RECURSIVE Loop(_, _)
      Loop(a, i) == IF i > Len(en) THEN a ELSE Loop(Step(a, en[i]), i + 1)
      last == Loop(Acc0, 1)
  IN  IF en = <<>> THEN <<>> ELSE Finish(last, IF last.prev = -1 THEN 0 ELSE last.prev).out

----------------------------------------------------------------------------
VARIABLE ins

PostChoices == [Terms -> SUBSET Docs]
Init == ins \in [1..NS -> [post : PostChoices, hl : BOOLEAN, drops : SUBSET Docs]]
Next == UNCHANGED ins
Spec == Init /\ [][Next]_ins

MergeIsRebuild ==
  LET out == Impl(ins) IN
  /\ { out[j].t : j \in 1..Len(out) } = DeclDict(ins)
  /\ \A j \in 1..Len(out) :
       /\ out[j].hits = DeclHits(ins, out[j].t)
       \* the single-hit encoding is an optimisation: never required, but when chosen it must describe the hit
       /\ (out[j].oneHit => Decl1Hit(ins, out[j].t) /\ out[j].hit1.d = out[j].hits[1].d /\ out[j].hit1.nm = out[j].hits[1].nm)
       /\ (~out[j].oneHit => out[j].cs = ChunkSize(Len(out[j].hits), NewCount(ins)))
  /\ \A j \in 1..(Len(out) - 1) : out[j].t < out[j + 1].t
=============================================================================
