SPECIFICATION Spec
CONSTANTS
  N = 4
  L = 3
  Mut = "none"
  ChunkSizes = {1, 2, 4}
INVARIANT Refines
CHECK_DEADLOCK FALSE
