SPECIFICATION Spec
CONSTANTS
  Sizes = {1, 2, 5}
  MaxProg = 3
  Caps = {1, 2, 4}
  Explore = "persist"
INVARIANTS OkMeansComplete ErrMeansNoFile FaultSurfaces
CHECK_DEADLOCK FALSE
