SPECIFICATION Spec
CONSTANTS
  NT = 3
  ND = 2
  NS = 2
  Mut = "noEmptyFlush"
INVARIANT MergeIsRebuild
CHECK_DEADLOCK FALSE
