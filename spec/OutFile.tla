------------------------------- MODULE OutFile -------------------------------
(***************************************************************************)
(* Output protocol of Persist, WriteTo and Merge (DESIGN 4 C17, C18, C19). *)
(* An operation is a program: a sequence of steps                          *)
(*    [k |-> "w", n |-> bytes, chk |-> BOOLEAN]   a write through the      *)
(*                          buffered writer, its error checked or not      *)
(*    [k |-> "p"]           a poll of the close channel (Merge only)       *)
(*    [k |-> "e"]           a call into the vector engine (may fail)       *)
(* followed by Flush, Sync, Close; any error or an observed cancellation   *)
(* leads to Cleanup (close and remove the file).  The buffered writer has  *)
(* capacity Cap and a sticky error: once a flush fails every later write   *)
(* and flush fails, which is what makes the unchecked writes of the field  *)
(* table safe.  Faults: the destination accepts only the first Fault bytes *)
(* (none = -1); the channel is found closed at poll Cancel (0 = never) or  *)
(* closed by the write callback after write CancelW (0 = never); engine    *)
(* call number EFail fails (0 = none).                                     *)
(*                                                                         *)
(* Step(s) is the deterministic successor function; the state machine runs *)
(* it, and TraceOut uses the same function to predict the outcome of a     *)
(* recorded real run (the program is the step sequence recorded from the   *)
(* fault-free run of the real operation).                                  *)
(***************************************************************************)
EXTENDS Integers, Sequences, FiniteSets, TLC

\* kind: "persist" | "writeto" | "merge" | "build"
InitState(kind, prog, cap, fault, cancel, cancelW, efail) ==
  [kind |-> kind, prog |-> prog, cap |-> cap, fault |-> fault, cancel |-> cancel, cancelW |-> cancelW, efail |-> efail,
   pc |-> 1, phase |-> "body",        \* body, flush, sync, close, cleanup, done
   buffered |-> 0, file |-> 0,        \* bytes in the buffer / accepted by the destination
   sticky |-> FALSE,                  \* the buffered writer's sticky error
   closedNow |-> FALSE,               \* the close channel has been closed
   polls |-> 0, wcount |-> 0, ecalls |-> 0,
   exists |-> kind \in {"persist", "merge"},   \* the file was created at the start
   result |-> "running"]              \* running, ok, io, closed, engine

Total(prog) == LET S(i) == IF prog[i].k = "w" THEN prog[i].n ELSE 0
                   RECURSIVE Sum(_)
                   Sum(i) == IF i = 0 THEN 0 ELSE S(i) + Sum(i - 1)
               IN  Sum(Len(prog))

\* the destination accepts bytes up to the fault offset
Accept(s, n) == IF s.fault < 0 \/ s.file + n <= s.fault THEN n ELSE (IF s.fault > s.file THEN s.fault - s.file ELSE 0)

\* flush n buffered bytes to the destination: partial on a fault, then the error sticks
FlushBuf(s) ==
  IF s.sticky THEN s
  ELSE LET a == Accept(s, s.buffered) IN
       [s EXCEPT !.file = @ + a, !.buffered = s.buffered - a, !.sticky = a < s.buffered]

\* bufio.Writer.Write of n bytes: fill, flush when full, large writes go straight through
BufWrite(s, n) ==
  LET RECURSIVE W(_, _)
      W(st, left) ==
        IF st.sticky \/ left = 0 THEN st
        ELSE IF st.buffered = 0 /\ left >= st.cap
             THEN LET a == Accept(st, left) IN [st EXCEPT !.file = @ + a, !.sticky = a < left]   \* direct write
             ELSE LET room == st.cap - st.buffered
                      c == IF left < room THEN left ELSE room
                      st1 == [st EXCEPT !.buffered = @ + c]
                  IN  IF c < left THEN W(FlushBuf(st1), left - c) ELSE st1
  IN  W(s, n)

Fail(s, r) == [s EXCEPT !.phase = IF s.exists THEN "cleanup" ELSE "done", !.result = r]

Step(s) ==
  CASE s.phase = "body" /\ s.pc <= Len(s.prog) ->
         LET st == s.prog[s.pc] IN
         IF st.k = "w" THEN
            LET s1 == [BufWrite(s, st.n) EXCEPT !.pc = s.pc + 1, !.wcount = s.wcount + 1] IN
            LET s2 == IF s1.cancelW = s1.wcount THEN [s1 EXCEPT !.closedNow = TRUE] ELSE s1 IN
            IF s2.sticky /\ st.chk THEN Fail(s2, "io") ELSE s2
         ELSE IF st.k = "p" THEN
            LET s1 == [s EXCEPT !.pc = s.pc + 1, !.polls = s.polls + 1] IN
            LET s2 == IF s1.cancel = s1.polls THEN [s1 EXCEPT !.closedNow = TRUE] ELSE s1 IN
            IF s2.closedNow THEN Fail(s2, "closed") ELSE s2
         ELSE \* engine call
            LET s1 == [s EXCEPT !.pc = s.pc + 1, !.ecalls = s.ecalls + 1] IN
            IF s1.efail = s1.ecalls THEN Fail(s1, "engine") ELSE s1
    [] s.phase = "body" /\ s.pc > Len(s.prog) -> [s EXCEPT !.phase = "flush"]
    [] s.phase = "flush" ->
         LET s1 == FlushBuf(s) IN
         IF s1.sticky THEN Fail(s1, "io")
         ELSE [s1 EXCEPT !.phase = IF s.kind \in {"persist", "merge"} THEN "sync" ELSE "done",
                         !.result = IF s.kind \in {"persist", "merge"} THEN "running" ELSE "ok"]
    [] s.phase = "sync"  -> [s EXCEPT !.phase = "close"]
    [] s.phase = "close" -> [s EXCEPT !.phase = "done", !.result = "ok"]
    [] s.phase = "cleanup" -> [s EXCEPT !.phase = "done", !.exists = FALSE]
    [] OTHER -> s

Terminal(s) == s.phase = "done"

RunToEnd(s0) ==
  LET RECURSIVE R(_)
      R(s) == IF Terminal(s) THEN s ELSE R(Step(s))
  IN  R(s0)

----------------------------------------------------------------------------
(* state machine over all small programs and fault plans *)
CONSTANTS Sizes, MaxProg, Caps, Explore

VARIABLE st

Steps == [k : {"w"}, n : Sizes, chk : BOOLEAN] \cup (IF Explore = "merge" THEN {[k |-> "p", n |-> 0, chk |-> TRUE], [k |-> "e", n |-> 0, chk |-> TRUE]} ELSE {})
Progs == UNION { [1..m -> Steps] : m \in 1..MaxProg }

Init ==
  \E prog \in Progs, cap \in Caps :
    LET total == Total(prog)
        np == Cardinality({ i \in 1..Len(prog) : prog[i].k = "p" })
        nw == Cardinality({ i \in 1..Len(prog) : prog[i].k = "w" })
        ne == Cardinality({ i \in 1..Len(prog) : prog[i].k = "e" })
    IN  \* a program ends with a checked write (the footer), as every real operation does
        /\ prog[Len(prog)].k = "w" /\ prog[Len(prog)].chk
        /\ \E fault \in -1..total, cancel \in 0..np, cancelW \in 0..(IF np > 0 THEN nw ELSE 0), efail \in 0..ne :
             st = InitState(Explore, prog, cap, fault, cancel, cancelW, efail)

Next == ~Terminal(st) /\ st' = Step(st)

Spec == Init /\ [][Next]_st

\* success means a complete file (every byte accepted, nothing left in the buffer, file present)
OkMeansComplete ==
  (Terminal(st) /\ st.result = "ok") =>
     /\ st.file = Total(st.prog) /\ st.buffered = 0 /\ ~st.sticky
     /\ (st.kind \in {"persist", "merge"} => st.exists)

\* an error (write fault, cancellation, engine failure) leaves no file
ErrMeansNoFile == (Terminal(st) /\ st.result # "ok") => ~st.exists

\* a fault inside the output is always reported, checked write or not
FaultSurfaces == (Terminal(st) /\ st.fault >= 0 /\ st.fault < Total(st.prog)) => st.result # "ok"

\* a cancellation observed by a poll is reported as such unless an earlier failure was
CancelSurfaces == (Terminal(st) /\ st.result = "ok") => ~(st.cancel > 0 /\ st.cancel <= st.polls)

\* an engine failure is never swallowed
EngineSurfaces == (Terminal(st) /\ st.efail > 0 /\ st.efail <= st.ecalls) => st.result # "ok"
=============================================================================
