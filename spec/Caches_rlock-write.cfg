SPECIFICATION Spec
CONSTANTS
  Procs = {1, 2, 3}
  Fields = {1, 2}
  Protocol = "rlock-write"
INVARIANTS NoRace OneEntry LocksSound
CHECK_DEADLOCK FALSE
