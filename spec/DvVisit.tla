------------------------------ MODULE DvVisit ------------------------------
(***************************************************************************)
(* Doc-value visits (DESIGN 4 C03).  Declarative law: a visit of document  *)
(* d of segment s for a field list yields, per doc-value field, exactly    *)
(* the terms of d - whatever was visited before and whether or not the     *)
(* visit state is reused (also across segments).                           *)
(*                                                                         *)
(* The module also carries the operational model of the code's visit       *)
(* state (per-field current chunk, decompressed-chunk cache, reset when    *)
(* the segment changes) and TLC checks on every reachable state that the   *)
(* operational result equals the declarative one (DvAnyOrder).             *)
(* Every maximal visit sequence is emitted as a walk with expected         *)
(* results, to be replayed on real segments for every chunk size.          *)
(***************************************************************************)
EXTENDS ZapCatalog, Json

CONSTANTS L,        \* visits per walk
          NDocs,    \* documents per segment (<= 4)
          Chunks,   \* chunk sizes the operational model is checked for
          Emit

VARIABLES hist,     \* sequence of [seg, d, reuse, ret]
          cs,       \* chunk size of this behaviour (operational model only)
          st        \* operational visit state: [bound, seg, rd] ; rd: field -> [cur, header]

vars == <<hist, cs, st>>

fC == <<99>>
fNone == <<110, 111>>
VisitFields == <<fA, fB, fC, fNone>>

dvid(s, n) == <<100, 48 + s, 48 + n>>
\* segment 1: a (doc values) sparse, b (doc values) dense, c without doc values
S1 == << Doc(dvid(1, 0), << IdF(dvid(1, 0)), Txt(fA, FALSE, TRUE, 116, <<>>, <<>>, 2, <<Tk(bA, 1, <<>>), Tk(bAB, 1, <<>>)>>),
                             Txt(fB, FALSE, TRUE, 116, <<>>, <<>>, 1, <<Tk(bX, 1, <<>>)>>) >>, <<>>),
         Doc(dvid(1, 1), << IdF(dvid(1, 1)), Txt(fB, FALSE, TRUE, 116, <<>>, <<>>, 1, <<Tk(bY, 1, <<>>)>>),
                             Txt(fC, FALSE, FALSE, 116, <<>>, <<>>, 1, <<Tk(bA, 1, <<>>)>>) >>, <<>>),
         Doc(dvid(1, 2), << IdF(dvid(1, 2)), Txt(fA, FALSE, TRUE, 116, <<>>, <<>>, 1, <<Tk(bEmpty, 1, <<>>)>>),
                             Txt(fB, FALSE, TRUE, 116, <<>>, <<>>, 2, <<Tk(bX, 1, <<>>), Tk(bCafe, 1, <<>>)>>) >>, <<>>),
         Doc(dvid(1, 3), << IdF(dvid(1, 3)), Txt(fB, FALSE, TRUE, 116, <<>>, <<>>, 1, <<Tk(bA, 2, <<>>)>>) >>, <<>>) >>
\* segment 2: a dense with other terms, b only in the last document, c with doc values here
S2 == << Doc(dvid(2, 0), << IdF(dvid(2, 0)), Txt(fA, FALSE, TRUE, 116, <<>>, <<>>, 1, <<Tk(bB, 1, <<>>)>>) >>, <<>>),
         Doc(dvid(2, 1), << IdF(dvid(2, 1)), Txt(fA, FALSE, TRUE, 116, <<>>, <<>>, 1, <<Tk(bY, 1, <<>>)>>),
                             Txt(fC, FALSE, TRUE, 116, <<>>, <<>>, 1, <<Tk(bX, 1, <<>>)>>) >>, <<>>),
         Doc(dvid(2, 2), << IdF(dvid(2, 2)), Txt(fA, FALSE, TRUE, 116, <<>>, <<>>, 2, <<Tk(bA, 1, <<>>), Tk(bB, 1, <<>>)>>) >>, <<>>),
         Doc(dvid(2, 3), << IdF(dvid(2, 3)), Txt(fA, FALSE, TRUE, 116, <<>>, <<>>, 1, <<Tk(bCafe, 1, <<>>)>>),
                             Txt(fB, FALSE, TRUE, 116, <<>>, <<>>, 1, <<Tk(bAB, 1, <<>>)>>) >>, <<>>) >>

BatchOfSeg(s) == SubSeq(IF s = 1 THEN S1 ELSE S2, 1, NDocs)
C1 == ContentOfBatch(BatchOfSeg(1), 1026)     \* constant-level: evaluated once by TLC
C2 == ContentOfBatch(BatchOfSeg(2), 1026)
Content(s) == IF s = 1 THEN C1 ELSE C2
\* doc values as a table: segment -> document -> field -> terms
DvTab == [s \in 1..2 |-> [d \in 0..(NDocs - 1) |-> [f \in RangeOf(VisitFields) |-> DvOf(Content(s), d, f)]]]
Dv(s, d, f) == DvTab[s][d][f]

\* declarative result of one visit
Decl(s, d) == UNION { { [f |-> VisitFields[k], t |-> t] : t \in Dv(s, d, VisitFields[k]) } : k \in 1..Len(VisitFields) }

----------------------------------------------------------------------------
(* operational model of docVisitState / docValueReader *)
None == -1
FreshSt == [bound |-> None, rd |-> <<>>, has |-> FALSE]

\* documents of chunk c of segment s that have data for field f (the chunk header)
Header(s, f, c, size) == { d \in 0..(NDocs - 1) : d \div size = c /\ Dv(s, d, f) # {} }

OpVisit(state, s, d, reuse, size) ==
  LET s0 == IF reuse THEN state ELSE FreshSt
      \* a state whose segment differs is re-bound and loses its readers (a fresh state is unbound)
      s1 == IF reuse /\ s0.bound # s THEN [bound |-> s, rd |-> <<>>, has |-> FALSE] ELSE s0
      dvF == { f \in RangeOf(VisitFields) : f \in Content(s).dvMax }
      rd1 == IF s1.has THEN s1.rd ELSE [f \in dvF |-> [cur |-> None, seg |-> s, hdr |-> {}]]
      c   == d \div size
      rd2 == [f \in DOMAIN rd1 |-> IF rd1[f].cur = c THEN rd1[f]
                                   ELSE [cur |-> c, seg |-> s, hdr |-> Header(s, f, c, size)]]
      res == UNION { IF d \in rd2[f].hdr THEN { [f |-> f, t |-> t] : t \in Dv(rd2[f].seg, d, f) } ELSE {} : f \in DOMAIN rd2 }
  IN  [st |-> [bound |-> s1.bound, rd |-> rd2, has |-> TRUE], res |-> res]

----------------------------------------------------------------------------
Init ==
  /\ hist = <<>> /\ cs \in Chunks /\ st = FreshSt
  /\ (Emit /\ cs = MinOf(Chunks)) =>
        PrintT(<<"TABLES", ToJson([fields |-> VisitFields,
                                   segs |-> [s \in 1..2 |-> [batch |-> BatchOfSeg(s), dvf |-> SortBytes(Content(s).dvMax)]]])>>)

Visit(s, d, reuse) ==
  /\ Len(hist) < L
  /\ LET o == OpVisit(st, s, d, reuse, cs)
         h == Append(hist, [seg |-> s, d |-> d, reuse |-> reuse, ret |-> SetToSeq(Decl(s, d)), opret |-> o.res])
     IN  /\ hist' = h
         /\ st' = o.st
         /\ (Emit /\ cs = MinOf(Chunks) /\ Len(h) = L) =>
               PrintT(<<"WALK", ToJson([visits |-> [i \in 1..L |-> [seg |-> h[i].seg, d |-> h[i].d, reuse |-> h[i].reuse, ret |-> h[i].ret]]])>>)
  /\ UNCHANGED cs

Next == \E s \in 1..2, d \in 0..(NDocs - 1), reuse \in BOOLEAN : Visit(s, d, reuse)

Spec == Init /\ [][Next]_vars

\* the operational visit state never changes an answer
DvAnyOrder == \A i \in 1..Len(hist) : hist[i].opret = RangeOf(hist[i].ret)
=============================================================================
