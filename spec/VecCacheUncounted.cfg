SPECIFICATION Spec
CONSTANTS
  Handles = {1, 2}
  MaxSteps = 7
  Emit = FALSE
  Counted = FALSE
VIEW View
INVARIANTS HandleSafe ClosedOnce NoLeak RefsExact
CHECK_DEADLOCK FALSE
