------------------------------- MODULE Residue -------------------------------
(***************************************************************************)
(* What a pooled builder carries from one build to the next (C10,          *)
(* operational part).  The builder's reuse-prone slices (per-field doc     *)
(* value flags, per-field key lists, postings bitmaps, freq/norm and       *)
(* location backing arrays, per-field scratch) are re-sliced to the new    *)
(* batch's sizes when their capacity suffices, which exposes whatever the  *)
(* backing array still holds.  The discipline of Reset() - clear every     *)
(* used element, then truncate - keeps every element beyond the length     *)
(* clean, so that a re-slice never shows data of an earlier batch.         *)
(*                                                                         *)
(* A slice is [len, back] with back a sequence of cells (0 = clean, b > 0  *)
(* = written by build b).  Order = "clear-then-truncate" is the code;      *)
(* "truncate-then-clear" (the loop then ranges over an empty slice) is the *)
(* wrong variant TLC refutes.  NoLeak: after the builder has been prepared *)
(* for a batch, no visible cell holds data of an earlier build.            *)
(***************************************************************************)
EXTENDS Integers, Sequences, TLC

CONSTANTS MaxSize, MaxBuilds, Order, Kinds

VARIABLES sl,      \* kind -> [len, back]
          build,   \* number of the current build (0 = none yet)
          phase    \* "pooled" | "prepared" | "filled"

vars == <<sl, build, phase>>

Empty == [len |-> 0, back |-> <<>>]

Init == sl = [k \in Kinds |-> Empty] /\ build = 0 /\ phase = "pooled"

\* realloc: re-slice when the capacity suffices (old cells become visible), else a fresh zeroed array
Reslice(s, n) ==
  IF Len(s.back) >= n THEN [s EXCEPT !.len = n]
  ELSE [len |-> n, back |-> [i \in 1..n |-> 0]]

\* Get + convert up to the point where the slices have the new batch's sizes
Prepare(sizes) ==
  /\ phase = "pooled" /\ build < MaxBuilds
  /\ build' = build + 1
  /\ sl' = [k \in Kinds |-> Reslice(sl[k], sizes[k])]
  /\ phase' = "prepared"

\* the build writes its data into (some of) the visible cells; cells it does not write keep what they show
Fill(written) ==
  /\ phase = "prepared"
  /\ sl' = [k \in Kinds |-> [sl[k] EXCEPT !.back = [i \in 1..Len(sl[k].back) |->
                                  IF i <= sl[k].len /\ i \in written[k] THEN build ELSE sl[k].back[i]]]]
  /\ phase' = "filled" /\ UNCHANGED build

\* Reset(): clear the used elements and truncate - in the order given by Order
ResetSlice(s) ==
  IF Order = "clear-then-truncate"
  THEN [len |-> 0, back |-> [i \in 1..Len(s.back) |-> IF i <= s.len THEN 0 ELSE s.back[i]]]
  ELSE [len |-> 0, back |-> s.back]          \* the clearing loop ranges over the already truncated slice

Put == /\ phase = "filled" /\ sl' = [k \in Kinds |-> ResetSlice(sl[k])] /\ phase' = "pooled" /\ UNCHANGED build

\* a failed build is not returned: the next Get finds a fresh builder
Fail == /\ phase \in {"prepared", "filled"} /\ sl' = [k \in Kinds |-> Empty] /\ phase' = "pooled" /\ UNCHANGED build

Next ==
  \/ \E sizes \in [Kinds -> 0..MaxSize] : Prepare(sizes)
  \/ \E written \in [Kinds -> SUBSET (1..MaxSize)] : Fill(written)
  \/ Put \/ Fail

Spec == Init /\ [][Next]_vars

\* whatever the builder shows to a build that has not written it yet is clean
NoLeak ==
  phase = "prepared" => \A k \in Kinds : \A i \in 1..sl[k].len : sl[k].back[i] = 0

\* the pooled builder never holds visible data
PooledClean == phase = "pooled" => \A k \in Kinds : sl[k].len = 0 /\ \A i \in 1..Len(sl[k].back) : sl[k].back[i] = 0
=============================================================================
