SPECIFICATION Spec
CONSTANTS
  Procs = {1, 2, 3}
  MaxOps = 2
  MaxSteps = 5
  Repaired = TRUE
  Emit = FALSE
CONSTRAINT EmitWalk
INVARIANT Exclusive
CHECK_DEADLOCK FALSE
