-------------------------------- MODULE Life --------------------------------
(***************************************************************************)
(* Zapx over the catalogue: exhaustive exploration of short lifecycle      *)
(* histories.  Checks the design-level invariants and emits every edge of  *)
(* the state graph as a walk (DESIGN 3.4) for replay into the real code.   *)
(***************************************************************************)
EXTENDS Zapx, ZapCatalog, Json

CONSTANTS MaxBatch,     \* documents per batch
          MaxSegs,      \* segments ever created
          MaxMergeIn,   \* inputs per merge
          Docs,         \* catalogue indices in use
          Modes,        \* chunk modes
          Emit          \* TRUE: print walks

VARIABLES nextSid, nextFile, hist,
          lin       \* SegId -> set of builds the segment descends from

vars == <<segs, files, lcm, nextSid, nextFile, hist, lin>>

\* sequences of length 0..n over S
SeqsUpTo(S, n) == UNION { [1..k -> S] : k \in 0..n }
\* ordered lists of distinct elements
Distinct(s) == \A i, j \in 1..Len(s) : i # j => s[i] # s[j]

BatchOf(ix) == [i \in 1..Len(ix) |-> Catalogue[ix[i]]]

Out(act) == IF Emit THEN PrintT(<<"WALK", ToJson([acts |-> Append(hist, act)])>>) ELSE TRUE

Init ==
  /\ LifeInit /\ nextSid = 0 /\ nextFile = 0 /\ hist = <<>> /\ lin = <<>>
  /\ IF Emit THEN PrintT(<<"CATALOG", ToJson([docs |-> Catalogue])>>) ELSE TRUE

Rec(act) == hist' = Append(hist, act) /\ Out(act)

DoBuild ==
  /\ nextSid < MaxSegs
  /\ \E ix \in SeqsUpTo(Docs, MaxBatch), m \in Modes :
       /\ Build(nextSid, BatchOf(ix), m)
       /\ Rec([op |-> "build", batch |-> ix, mode |-> m])
  /\ lin' = Put(lin, nextSid, {nextSid})
  /\ nextSid' = nextSid + 1 /\ UNCHANGED nextFile

\* persist immediately followed by open (one walk step; two trace events)
DoPersistOpen ==
  /\ nextSid < MaxSegs
  /\ \E s \in DOMAIN segs :
       /\ segs[s].kind = "mem"
       /\ files' = Put(files, nextFile, [c |-> segs[s].c])
       /\ segs' = Put(segs, nextSid, [c |-> segs[s].c, kind |-> "mmap", refs |-> 1])
       /\ Rec([op |-> "persistopen", sid |-> s])
       /\ lin' = Put(lin, nextSid, lin[s])
  /\ nextSid' = nextSid + 1 /\ nextFile' = nextFile + 1 /\ UNCHANGED lcm

\* named deviation (known finding, DESIGN 6 #5): the output of a merge without survivors is not merged again
ZeroMerged(c) == c.prov = "merged" /\ Count(c) = 0 /\ c.fields # <<>>

DropChoices(s) == SUBSET (0..(Count(segs[s].c) - 1))

\* merge immediately followed by open of the result
DoMergeOpen ==
  /\ nextSid < MaxSegs
  /\ \E ins \in { x \in SeqsUpTo({ s \in DOMAIN segs : ~ZeroMerged(segs[s].c) }, MaxMergeIn) : Len(x) >= 1 /\ Distinct(x) }, m \in Modes :
       \E Ds \in { D \in [1..Len(ins) -> SUBSET (0..3)] : \A i \in 1..Len(ins) : D[i] \in DropChoices(ins[i]) } :
       \E nils \in [1..Len(ins) -> BOOLEAN] :
         /\ \A i \in 1..Len(ins) : nils[i] => Ds[i] = {}
         \* input domain: vector ids are unique across the inputs of a merge, i.e. inputs with vectors
         \* do not descend from the same build (a segment is not merged with a copy of itself)
         /\ (\E i \in 1..Len(ins) : VecFieldsOf(segs[ins[i]].c) # {}) =>
               \A i, j \in 1..Len(ins) : i # j => lin[ins[i]] \cap lin[ins[j]] = {}
         /\ lin' = Put(lin, nextSid, UNION { lin[ins[i]] : i \in 1..Len(ins) })
         /\ LET mc == MergeResult(ins, Ds, m) IN
            /\ files' = Put(files, nextFile, [c |-> mc])
            /\ segs' = Put(segs, nextSid, [c |-> mc, kind |-> "mmap", refs |-> 1])
         /\ Rec([op |-> "mergeopen", ins |-> ins, mode |-> m,
                 drops |-> [i \in 1..Len(ins) |-> [nil |-> nils[i], ds |-> SortInts(Ds[i])]]])
  /\ nextSid' = nextSid + 1 /\ nextFile' = nextFile + 1 /\ UNCHANGED lcm

DoClose ==
  /\ \E s \in DOMAIN segs : Close(s) /\ Rec([op |-> "close", sid |-> s])
  /\ UNCHANGED <<nextSid, nextFile, lin>>

Next == DoBuild \/ DoPersistOpen \/ DoMergeOpen \/ DoClose

Spec == Init /\ [][Next]_vars

View == <<segs, files, lcm, nextSid, nextFile, lin>>

----------------------------------------------------------------------------
\* persist/open and merge/open preserve what the laws say (design-level)
OpenedEqualsFile == \A s \in DOMAIN segs : segs[s].kind = "mmap" => \E k \in DOMAIN files : files[k].c = segs[s].c

\* a merge that drops nothing from a single input changes no observation except provenance
MergeCountsAdd ==
  \A k \in DOMAIN files : files[k].c.prov = "merged" => Count(files[k].c) <= 4 * MaxBatch
=============================================================================
