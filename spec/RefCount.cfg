SPECIFICATION Spec
CONSTANTS
  Holders = {1, 2, 3}
  MaxLen = 8
  Emit = TRUE
CONSTRAINT EmitWalk
INVARIANT RefSafe
CHECK_DEADLOCK FALSE
