//go:build !vectors

package main

func (l *Life) EngineFailures(class string, tag string) {
	fatal2("engine failure plans need the build tag vectors")
}
