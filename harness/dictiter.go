package main

// C08: replay of DictIter walks (every term set x acceptance set x key range)
// on real dictionaries of built, re-opened, merged and twice-merged segments.
// Acceptance sets are realised as trie DFAs (any finite set) and, where their
// denotation coincides, as vellum regexp / Levenshtein automata.

import (
	"encoding/json"
	"fmt"
	"os"
	"path/filepath"
	"reflect"
	"runtime"
	"runtime/debug"
	"sort"
	"strings"
	"sync"

	"github.com/RoaringBitmap/roaring/v2"
	segment "github.com/blevesearch/scorch_segment_api/v2"
	"github.com/blevesearch/vellum/levenshtein"
	vregexp "github.com/blevesearch/vellum/regexp"
	zap "github.com/blevesearch/zapx/v16"
)

// trieDFA accepts exactly a finite set of byte strings.
type trieDFA struct {
	next  []map[byte]int
	match []bool
}

func newTrieDFA(keys [][]byte) *trieDFA {
	t := &trieDFA{next: []map[byte]int{{}}, match: []bool{false}}
	for _, k := range keys {
		s := 0
		for _, b := range k {
			n, ok := t.next[s][b]
			if !ok {
				n = len(t.next)
				t.next = append(t.next, map[byte]int{})
				t.match = append(t.match, false)
				t.next[s][b] = n
			}
			s = n
		}
		t.match[s] = true
	}
	return t
}

func (t *trieDFA) Start() int               { return 0 }
func (t *trieDFA) IsMatch(s int) bool       { return s >= 0 && t.match[s] }
func (t *trieDFA) CanMatch(s int) bool      { return s >= 0 }
func (t *trieDFA) WillAlwaysMatch(int) bool { return false }
func (t *trieDFA) Accept(s int, b byte) int {
	if s < 0 {
		return -1
	}
	if n, ok := t.next[s][b]; ok {
		return n
	}
	return -1
}

func accepts(a segment.Automaton, key []byte) bool {
	s := a.Start()
	for _, b := range key {
		s = a.Accept(s, b)
	}
	return a.IsMatch(s)
}

type diBound struct {
	Nil bool `json:"nil"`
	K   B    `json:"k"`
}

type diWalk struct {
	TS     []int      `json:"ts"`
	Acc    []int      `json:"acc"`
	Lo     diBound    `json:"lo"`
	Hi     diBound    `json:"hi"`
	Ents   []ODictEnt `json:"ents"`
	Ents2  []ODictEnt `json:"ents2"`
	EntsD0 []ODictEnt `json:"entsd0"`
	EntsD1 []ODictEnt `json:"entsd1"`
}

type diDict struct {
	TS    []int `json:"ts"`
	Batch []Doc `json:"batch"`
	Terms []B   `json:"terms"`
	Cat   []B   `json:"cat"`
}

type diDiff struct {
	Walk diWalk `json:"walk"`
	Kind string `json:"kind"`
	Auto string `json:"auto"`
	What string `json:"what"`
	Got  string `json:"got"`
	Want string `json:"want"`
}

type namedAuto struct {
	name string
	a    segment.Automaton
}

func vellumAutomata() []namedAuto {
	out := []namedAuto{}
	for _, re := range []string{".*", ".+", "a.*", "a", "ab?", "[ab]", "a\x00?", "x", "(a|b).*", ".", "..+"} {
		r, err := vregexp.New(re)
		if err != nil {
			fatal2("regexp %q: %v", re, err)
		}
		out = append(out, namedAuto{"regexp:" + re, r})
	}
	lb, err := levenshtein.NewLevenshteinAutomatonBuilder(1, false)
	if err != nil {
		fatal2("levenshtein: %v", err)
	}
	for _, q := range []string{"a", "ab", "b", "é"} {
		d, err := lb.BuildDfa(q, 1)
		if err != nil {
			fatal2("levenshtein dfa: %v", err)
		}
		out = append(out, namedAuto{"lev1:" + q, d})
	}
	return out
}

func runDictIter(walksPath, dictsPath, dir, outPath string) {
	plugin := &zap.ZapPlugin{}
	zap.DefaultChunkMode = 1026
	dicts := map[string]*diDict{}
	forEachLine(dictsPath, func(line []byte) {
		d := &diDict{}
		if err := json.Unmarshal(line, d); err != nil {
			fatal2("dict: %v", err)
		}
		for i := range d.Batch {
			d.Batch[i].Canon()
		}
		dicts[keyInts(d.TS)] = d
	})
	groups := map[string][]*diWalk{}
	nw := 0
	forEachLine(walksPath, func(line []byte) {
		w := &diWalk{}
		if err := json.Unmarshal(line, w); err != nil {
			fatal2("walk: %v", err)
		}
		if w.Ents == nil {
			w.Ents = []ODictEnt{}
		}
		if w.Ents2 == nil {
			w.Ents2 = []ODictEnt{}
		}
		if w.EntsD0 == nil {
			w.EntsD0 = []ODictEnt{}
		}
		if w.EntsD1 == nil {
			w.EntsD1 = []ODictEnt{}
		}
		groups[keyInts(w.TS)] = append(groups[keyInts(w.TS)], w)
		nw++
	})
	keys := []string{}
	for k := range groups {
		keys = append(keys, k)
	}
	sort.Strings(keys)
	vauts := vellumAutomata()
	type job struct {
		d    *diDict
		ws   []*diWalk
		segs map[string]segment.Segment
	}
	var jobs []job
	var diffs []diDiff
	for n, k := range keys {
		d := dicts[k]
		if d == nil {
			fatal2("no DICT line for term set %s", k)
		}
		segs, err := threeKinds(plugin, dir, fmt.Sprintf("di%d", n), d.Batch)
		if err != nil {
			diffs = append(diffs, diDiff{What: "setup", Got: err.Error()})
			continue
		}
		// merged twice: the merged segment merged again
		m2 := filepath.Join(dir, fmt.Sprintf("di%d-m2.zap", n))
		os.Remove(m2)
		if _, _, err := plugin.Merge([]segment.Segment{segs["merged"]}, []*roaring.Bitmap{nil}, m2, nil, nil); err != nil {
			diffs = append(diffs, diDiff{What: "setup", Got: "merge twice: " + err.Error()})
			continue
		}
		s2, err := plugin.Open(m2)
		if err != nil {
			diffs = append(diffs, diDiff{What: "setup", Got: "open merged twice: " + err.Error()})
			continue
		}
		segs["merged2"] = s2
		// a merge of two independently built segments with this dictionary (the empty term, if any, is
		// then the first key of an input that is not the last one)
		other, _, err := plugin.New(MakeDocs(d.Batch))
		if err != nil {
			diffs = append(diffs, diDiff{What: "setup", Got: "second build: " + err.Error()})
			continue
		}
		mp := filepath.Join(dir, fmt.Sprintf("di%d-pair.zap", n))
		os.Remove(mp)
		if _, _, err := plugin.Merge([]segment.Segment{segs["mem"], other}, []*roaring.Bitmap{nil, nil}, mp, nil, nil); err != nil {
			diffs = append(diffs, diDiff{What: "setup", Got: "merge pair: " + err.Error()})
			continue
		}
		sp, err := plugin.Open(mp)
		if err != nil {
			diffs = append(diffs, diDiff{What: "setup", Got: "open merged pair: " + err.Error()})
			continue
		}
		segs["pair"] = sp
		// built under chunk mode 2 (documents 0,1 | 2) and merged alone with document 0, resp. document 1 (the last
		// of the first chunk), deleted
		zap.DefaultChunkMode = 2
		small, _, err := plugin.New(MakeDocs(d.Batch))
		zap.DefaultChunkMode = 1026
		if err != nil {
			diffs = append(diffs, diDiff{What: "setup", Got: "build under chunk mode 2: " + err.Error()})
			continue
		}
		failed := false
		// ... persisted while the package default is a different chunk mode again, and re-opened
		pp := filepath.Join(dir, fmt.Sprintf("di%d-mode2.zap", n))
		os.Remove(pp)
		if err := small.(segment.UnpersistedSegment).Persist(pp); err != nil {
			diffs = append(diffs, diDiff{What: "setup", Got: "persist of the chunk mode 2 segment: " + err.Error()})
			continue
		}
		if so, err := plugin.Open(pp); err != nil {
			diffs = append(diffs, diDiff{What: "setup", Got: "open of the chunk mode 2 segment: " + err.Error()})
			continue
		} else {
			segs["mmap-mode2"] = so
			mp2 := filepath.Join(dir, fmt.Sprintf("di%d-mode2-merged.zap", n))
			os.Remove(mp2)
			if _, _, err := plugin.Merge([]segment.Segment{so}, []*roaring.Bitmap{nil}, mp2, nil, nil); err != nil {
				diffs = append(diffs, diDiff{What: "setup", Got: "merge of the re-opened chunk mode 2 segment: " + err.Error()})
				continue
			}
			sm, err := plugin.Open(mp2)
			if err != nil {
				diffs = append(diffs, diDiff{What: "setup", Got: "open of the merged chunk mode 2 segment: " + err.Error()})
				continue
			}
			segs["mode2-merged"] = sm
		}
		for _, dd := range []int{0, 1} {
			dp := filepath.Join(dir, fmt.Sprintf("di%d-drop%d.zap", n, dd))
			os.Remove(dp)
			bm := roaring.New()
			bm.Add(uint32(dd))
			zap.DefaultChunkMode = 2
			_, _, err := plugin.Merge([]segment.Segment{small}, []*roaring.Bitmap{bm}, dp, nil, nil)
			zap.DefaultChunkMode = 1026
			if err != nil {
				diffs = append(diffs, diDiff{What: "setup", Got: fmt.Sprintf("merge with document %d deleted: %v", dd, err)})
				failed = true
				break
			}
			sd, err := plugin.Open(dp)
			if err != nil {
				diffs = append(diffs, diDiff{What: "setup", Got: "open merged-with-deletion: " + err.Error()})
				failed = true
				break
			}
			segs[fmt.Sprintf("dropped%d", dd)] = sd
		}
		if failed {
			continue
		}
		jobs = append(jobs, job{d, groups[k], segs})
	}
	var mu sync.Mutex
	var wg sync.WaitGroup
	sem := make(chan struct{}, runtime.NumCPU())
	runs, vruns := 0, 0
	for _, jb := range jobs {
		wg.Add(1)
		sem <- struct{}{}
		go func(jb job) {
			debug.SetPanicOnFault(true)
			defer wg.Done()
			defer func() { <-sem }()
			var ld []diDiff
			lr, lv := 0, 0
			inTS := map[int]bool{}
			for _, i := range jb.d.TS {
				inTS[i] = true
			}
			// denotation of every vellum automaton over this dictionary's terms
			vacc := make([][]int, len(vauts))
			for ai, va := range vauts {
				acc := []int{}
				for _, i := range jb.d.TS {
					if accepts(va.a, jb.d.Cat[i-1]) {
						acc = append(acc, i)
					}
				}
				vacc[ai] = acc
			}
			for kind, sg := range jb.segs {
				dict, err := sg.Dictionary("f")
				if err != nil {
					ld = append(ld, diDiff{Kind: kind, What: "Dictionary", Got: err.Error()})
					continue
				}
				dropped := strings.HasPrefix(kind, "dropped") // terms may have vanished: the enumerations say which
				if !dropped && dict.Cardinality() != len(jb.d.TS) {
					ld = append(ld, diDiff{Walk: diWalk{TS: jb.d.TS}, Kind: kind, What: "Cardinality", Got: fmt.Sprint(dict.Cardinality()), Want: fmt.Sprint(len(jb.d.TS))})
				}
				for i, t := range jb.d.Cat {
					has, err := dict.Contains(t)
					if !dropped && (err != nil || has != inTS[i+1]) {
						ld = append(ld, diDiff{Walk: diWalk{TS: jb.d.TS}, Kind: kind, What: "Contains", Got: fmt.Sprint(has, err), Want: fmt.Sprint(inTS[i+1])})
					}
				}
				for _, w := range jb.ws {
					var lo, hi []byte
					if !w.Lo.Nil {
						lo = []byte(w.Lo.K)
						if lo == nil {
							lo = []byte{}
						}
					}
					if !w.Hi.Nil {
						hi = []byte(w.Hi.K)
						if hi == nil {
							hi = []byte{}
						}
					}
					accKeys := [][]byte{}
					for _, i := range w.Acc {
						accKeys = append(accKeys, jb.d.Cat[i-1])
					}
					// decoys: catalogue terms that are not in the dictionary may be accepted too
					decoy := append([][]byte{}, accKeys...)
					for i, t := range jb.d.Cat {
						if !inTS[i+1] {
							decoy = append(decoy, t)
						}
					}
					autos := []namedAuto{{"trie", newTrieDFA(accKeys)}, {"trie+decoys", newTrieDFA(decoy)}}
					if len(w.Acc) == len(jb.d.TS) {
						autos = append(autos, namedAuto{"nil", nil})
					}
					for ai, va := range vauts {
						if reflect.DeepEqual(vacc[ai], append([]int{}, w.Acc...)) || (len(vacc[ai]) == 0 && len(w.Acc) == 0) {
							autos = append(autos, va)
						}
					}
					for _, au := range autos {
						lr++
						if len(au.name) > 4 && au.name[:4] != "trie" {
							lv++
						}
						func() {
							defer func() {
								if x := recover(); x != nil {
									ld = append(ld, diDiff{Walk: *w, Kind: kind, Auto: au.name, What: "panic", Got: fmt.Sprint(x)})
								}
							}()
							var it segment.DictionaryIterator
							if au.a == nil {
								it = dict.AutomatonIterator(nil, lo, hi)
							} else {
								it = dict.AutomatonIterator(au.a, lo, hi)
							}
							got := []ODictEnt{}
							for {
								e, err := it.Next()
								if err != nil {
									ld = append(ld, diDiff{Walk: *w, Kind: kind, Auto: au.name, What: "error", Got: err.Error()})
									return
								}
								if e == nil {
									break
								}
								got = append(got, ODictEnt{T: B(e.Term), N: int(e.Count)})
								if len(got) > 100 {
									break
								}
							}
							want := w.Ents
							switch kind {
							case "pair":
								want = w.Ents2
							case "dropped0":
								want = w.EntsD0
							case "dropped1":
								want = w.EntsD1
							}
							if js(got) != js(want) {
								ld = append(ld, diDiff{Walk: *w, Kind: kind, Auto: au.name, What: "entries", Got: js(got), Want: js(want)})
							}
						}()
					}
				}
			}
			mu.Lock()
			diffs = append(diffs, ld...)
			runs += lr
			vruns += lv
			mu.Unlock()
		}(jb)
	}
	wg.Wait()
	for _, jb := range jobs {
		for _, s := range jb.segs {
			s.Close()
		}
	}
	tr := NewTracer(outPath)
	for i, d := range diffs {
		if i < 200 {
			tr.Emit(d)
		}
	}
	tr.Close()
	fmt.Printf("walks=%d dicts=%d runs=%d vellum_runs=%d diffs=%d\n", nw, len(jobs), runs, vruns, len(diffs))
}
