package main

// Watchdog: a call into the code under test that does not return within the
// per-operation limit, or that drives the process beyond the memory limit, ends
// the run with a final "abort" trace event (exit 3).  The specification has no
// action for it, so the trace is rejected at that line; the orchestrator re-runs
// the scenario before reporting (DESIGN 5).

import (
	"fmt"
	"os"
	"runtime"
	"sync"
	"sync/atomic"
	"time"
)

type EvAbort struct {
	Ev  string `json:"ev"`
	Op  string `json:"op"`
	Why string `json:"why"`
}

var (
	wdOp     atomic.Value // string
	wdStart  atomic.Int64
	wdTracer *Tracer
	wdMu     sync.Mutex
)

func opBegin(op string) {
	wdOp.Store(op)
	wdStart.Store(time.Now().UnixNano())
}

func opEnd() { wdStart.Store(0) }

func startWatchdog(tr *Tracer, opLimit time.Duration, memLimit uint64) {
	wdTracer = tr
	go func() {
		var ms runtime.MemStats
		for {
			time.Sleep(200 * time.Millisecond)
			why := ""
			if s := wdStart.Load(); s != 0 && time.Since(time.Unix(0, s)) > opLimit {
				why = fmt.Sprintf("no return within %v", opLimit)
			}
			runtime.ReadMemStats(&ms)
			if ms.Sys > memLimit {
				why = fmt.Sprintf("process memory above %d MB", memLimit>>20)
			}
			if why != "" {
				op, _ := wdOp.Load().(string)
				wdMu.Lock()
				// the main goroutine may be inside Emit: write the abort record directly to the file
				wdTracer.w.Flush()
				fmt.Fprintf(wdTracer.f, "{\"ev\":\"abort\",\"op\":%q,\"why\":%q}\n", op, why)
				wdTracer.f.Sync()
				fmt.Fprintf(os.Stderr, "HARNESS-ABORT: %s during %s\n", why, op)
				os.Exit(3)
			}
		}
	}()
}
