package main

// C11: (i) replay of CtxPool schedules with parked stored-field visitors and
// pool snapshots after every step; (ii) concurrent readers over shared
// segments, every answer logged for validation by TLC.

import (
	"bytes"
	"encoding/json"
	"fmt"
	"hash/fnv"
	"os"
	"path/filepath"
	"runtime"
	"runtime/debug"
	"sort"
	"sync"

	"github.com/RoaringBitmap/roaring/v2"
	segment "github.com/blevesearch/scorch_segment_api/v2"
	zap "github.com/blevesearch/zapx/v16"
)

type cpStep struct {
	P    int    `json:"p"`
	A    string `json:"a"`
	D    int    `json:"d"`
	Keep bool   `json:"keep"`
}

type cpWalk struct {
	Steps []cpStep `json:"steps"`
}

type cpTables struct {
	Batch  []Doc    `json:"batch"`
	Stored [][]OVal `json:"stored"`
	IDs    []B      `json:"ids"`
}

type cpDiff struct {
	Walk cpWalk `json:"walk"`
	Kind string `json:"kind"`
	Step int    `json:"step"`
	What string `json:"what"`
	Got  string `json:"got"`
	Want string `json:"want"`
}

type cpEvent struct {
	done bool
	err  error
	k    int
	val  OVal
	bad  string
}

type cpProc struct {
	cmd chan func()
	ev  chan cpEvent
	res chan bool // resume(keep)
	k   int       // callbacks seen in the current visit
}

func hashBytes(b []byte) uint64 {
	h := fnv.New64a()
	h.Write(b)
	return h.Sum64()
}

func runCtxPool(walksPath, tablesPath, dir, outPath string) {
	if !hooksBuild {
		fatal2("ctxpool needs the verif build tag")
	}
	var tb cpTables
	raw, err := os.ReadFile(tablesPath)
	if err != nil {
		fatal2("%v", err)
	}
	if err := json.Unmarshal(raw, &tb); err != nil {
		fatal2("tables: %v", err)
	}
	for i := range tb.Batch {
		tb.Batch[i].Canon()
	}
	// a single P and no collector: the pool hands objects on deterministically (DESIGN 3.5)
	runtime.GOMAXPROCS(1)
	debug.SetGCPercent(-1)
	plugin := &zap.ZapPlugin{}
	zap.DefaultChunkMode = 1026
	segs, err := threeKinds(plugin, dir, "cp", tb.Batch)
	if err != nil {
		fatal2("ctxpool setup: %v", err)
	}
	var diffs []cpDiff
	nw, nsteps, maxPool := 0, 0, 0
	kinds := []string{"mem", "mmap"}
	forEachLine(walksPath, func(line []byte) {
		var w cpWalk
		if err := json.Unmarshal(line, &w); err != nil {
			fatal2("walk: %v", err)
		}
		kind := kinds[nw%2]
		nw++
		seg := segs[kind]
		ctxPoolSnapshot() // start from a pool without duplicates left by an earlier walk
		procs := map[int]*cpProc{}
		getProc := func(p int) *cpProc {
			if procs[p] == nil {
				pr := &cpProc{cmd: make(chan func()), ev: make(chan cpEvent), res: make(chan bool)}
				procs[p] = pr
				go func() {
					debug.SetPanicOnFault(true)
					for f := range pr.cmd {
						f()
					}
				}()
			}
			return procs[p]
		}
		diff := func(i int, what string, got, want interface{}) {
			diffs = append(diffs, cpDiff{Walk: w, Kind: kind, Step: i, What: what, Got: js(got), Want: js(want)})
		}
		parked := map[int]int{} // proc -> doc of the visit it is parked in
		check := func(i int, p int, d int, e cpEvent, wantDone bool, wantK int) {
			if e.bad != "" {
				diff(i, "visitor bytes changed", e.bad, "unchanged")
			}
			if e.done {
				if e.err != nil {
					diff(i, "error", e.err.Error(), nil)
				}
				delete(parked, p)
				if !wantDone {
					diff(i, "visit ended early", "done", fmt.Sprintf("callback %d", wantK))
				}
				return
			}
			if wantDone {
				diff(i, "visit continued after it had to end", e.val, "done")
				return
			}
			if wantK-1 < len(tb.Stored[d]) {
				want := tb.Stored[d][wantK-1]
				if want.AP == nil {
					want.AP = Ints{}
				}
				if js(e.val) != js(want) {
					diff(i, "callback value", e.val, want)
				}
			}
		}
		for i, st := range w.Steps {
			nsteps++
			pr := getProc(st.P)
			switch st.A {
			case "begin":
				d := st.D
				pr.k = 0
				parked[st.P] = d
				pr.cmd <- func() {
					err := seg.VisitStoredFields(uint64(d), func(field string, typ byte, value []byte, pos []uint64) bool {
						pr.k++
						h := hashBytes(value)
						cp := OVal{F: B(field), Ty: int(typ), V: append(B{}, value...), AP: ap2ints(pos)}
						pr.ev <- cpEvent{k: pr.k, val: cp}
						keep := <-pr.res
						if hashBytes(value) != h || !bytes.Equal(value, cp.V) {
							pr.ev <- cpEvent{k: pr.k, bad: fmt.Sprintf("value of %q changed while the visitor was parked", field)}
							<-pr.res
						}
						return keep
					})
					pr.ev <- cpEvent{done: true, err: err}
				}
				e := <-pr.ev
				check(i, st.P, d, e, false, 1)
			case "resume":
				d := parked[st.P]
				k := pr.k
				pr.res <- st.Keep
				e := <-pr.ev
				if e.bad != "" {
					check(i, st.P, d, e, false, 0)
					pr.res <- true
					e = <-pr.ev
				}
				wantDone := !st.Keep || k >= len(tb.Stored[d])
				check(i, st.P, d, e, wantDone, k+1)
			case "mergecancel":
				j := st.D
				pr.cmd <- func() {
					ch := make(chan struct{})
					polls := 0
					setPollHook(func() {
						polls++
						if polls == j {
							close(ch)
						}
					})
					path := filepath.Join(dir, "cp-cancel.zap")
					os.Remove(path)
					_, _, err := plugin.Merge([]segment.Segment{segs["mem"], segs["mmap"]}, []*roaring.Bitmap{nil, nil}, path, ch, nil)
					setPollHook(nil)
					if polls < j {
						close(ch)
					}
					os.Remove(path)
					if err == nil {
						err = fmt.Errorf("merge cancelled at poll %d of %d reported success", j, polls)
					} else if err == segment.ErrClosed {
						err = nil
					}
					pr.ev <- cpEvent{done: true, err: err}
				}
				e := <-pr.ev
				if e.err != nil {
					diff(i, "cancelled merge", e.err.Error(), "ErrClosed")
				}
			case "docid":
				d := st.D
				pr.cmd <- func() {
					id, err := seg.DocID(uint64(d))
					pr.ev <- cpEvent{done: true, err: err, val: OVal{V: append(B{}, id...)}}
				}
				e := <-pr.ev
				if e.err != nil || !bytes.Equal(e.val.V, tb.IDs[d]) {
					diff(i, "DocID", e.val.V, tb.IDs[d])
				}
			}
			ids := ctxPoolSnapshot()
			if len(ids) > maxPool {
				maxPool = len(ids)
			}
			seen := map[uintptr]bool{}
			for _, id := range ids {
				if seen[id] {
					diff(i, "scratch object twice in the pool", len(ids), "distinct objects")
					break
				}
				seen[id] = true
			}
		}
		// let the parked visitors finish
		for p, pr := range procs {
			for {
				if _, ok := parked[p]; !ok {
					break
				}
				pr.res <- true
				e := <-pr.ev
				if e.done {
					delete(parked, p)
				}
			}
			close(pr.cmd)
		}
	})
	tr := NewTracer(outPath)
	for i, d := range diffs {
		if i < 200 {
			tr.Emit(d)
		}
	}
	tr.Close()
	fmt.Printf("walks=%d steps=%d diffs=%d maxpool=%d\n", nw, nsteps, len(diffs), maxPool)
}

// ---------------------------------------------------------------------------

type EvObs struct {
	Ev  string `json:"ev"`
	Sid int    `json:"sid"`
	G   int    `json:"g"`
	Obs *Obs   `json:"obs"`
}

// ReadStress: g goroutines read shared segments (built, opened, merged) at the same time - complete
// observations with private probes, early-stopped visits, DocID - while merges use them as inputs.
func sortedFileKeys(m map[int]*universe) []int {
	ks := []int{}
	for k := range m {
		ks = append(ks, k)
	}
	sort.Ints(ks)
	return ks
}

func (l *Life) ReadStress(p *GenProfile, g, rounds int, tag string) {
	// a doc-value chunk size of 2: even small segments have many doc-value chunks
	l.Reset(2, tag)
	var shared []*hseg
	idBase := 0
	for i := 0; i < 2; i++ {
		b := GenBatch(l.r, p, idBase)
		idBase += len(b)
		if h := l.Build(b, 1026); h != nil {
			shared = append(shared, h)
		}
	}
	if len(shared) == 0 {
		return
	}
	k := l.Persist(shared[0])
	if _, ok := l.files[k]; ok {
		if h := l.Open(k); h != nil {
			shared = append(shared, h)
		}
	}
	if len(shared) >= 2 {
		if k, ok := l.Merge([]*hseg{shared[0], shared[1]}, []Drop{{Nil: true, Ds: Ints{}}, randDrop(l.r, shared[1].ndocs)}, 1026); ok {
			if h := l.Open(k); h != nil && !h.zero {
				shared = append(shared, h)
			}
		}
	}
	// cold copies: segments opened from the same files whose lazily filled caches (FST map, synonym cache)
	// have not been touched yet - the concurrent readers below are their first users
	for _, k := range sortedFileKeys(l.files) {
		if l.fileZ[k] {
			continue
		}
		seg, err := l.plugin.Open(l.path(k))
		if err != nil {
			continue
		}
		h := &hseg{sid: l.nextSid, seg: seg, uni: l.files[k], ndocs: l.fileN[k], lin: l.fileL[k]}
		l.nextSid++
		l.segs[h.sid] = h
		l.tr.Emit(struct {
			Ev   string `json:"ev"`
			Sid  int    `json:"sid"`
			File int    `json:"file"`
		}{"fopen", h.sid, k})
		shared = append(shared, h)
	}
	type job struct {
		h  *hseg
		pr *Probes
	}
	jobs := make([][]job, g)
	for i := range jobs {
		for j := 0; j < rounds; j++ {
			h := shared[l.r.Intn(len(shared))]
			jobs[i] = append(jobs[i], job{h, probesFor(h.uni, l.r, int(h.seg.Count()), true)})
		}
	}
	var wg sync.WaitGroup
	for i := range jobs {
		wg.Add(1)
		go func(gi int, js []job) {
			debug.SetPanicOnFault(true)
			defer wg.Done()
			for _, jb := range js {
				// an early-terminated visit first: it shapes the shared scratch pool
				_ = jb.h.seg.VisitStoredFields(0, func(string, byte, []byte, []uint64) bool { return false })
				obs := Observe(jb.h.seg, jb.pr)
				l.tr.Emit(EvObs{Ev: "obs", Sid: jb.h.sid, G: gi, Obs: obs})
			}
		}(i, jobs[i])
	}
	// meanwhile: two merges at a time that use the same shared segments as inputs
	mdir := l.dir
	for mg := 0; mg < 2; mg++ {
		wg.Add(1)
		go func(mg int) {
			debug.SetPanicOnFault(true)
			defer wg.Done()
			plugin := &zap.ZapPlugin{}
			for r := 0; r < rounds; r++ {
				segs := []segment.Segment{}
				drops := []*roaring.Bitmap{}
				for _, h := range shared {
					if !h.zero {
						segs = append(segs, h.seg)
						drops = append(drops, nil)
					}
				}
				path := filepath.Join(mdir, fmt.Sprintf("stress-%d-%d.zap", mg, r))
				os.Remove(path)
				plugin.Merge(segs, drops, path, nil, nil)
				os.Remove(path)
			}
		}(mg)
	}
	wg.Wait()
	for _, h := range l.live() {
		l.Close(h)
	}
}
