//go:build !verif

package main

func builderResidue() map[string]int { return map[string]int{} }

func ctxPoolSnapshot() []uintptr { return nil }

func setPollHook(f func()) {}

const hooksBuild = false
