//go:build !vectors

package main

import (
	"math/rand"

	index "github.com/blevesearch/bleve_index_api"
	segment "github.com/blevesearch/scorch_segment_api/v2"
)

const vectorsBuild = false

func makeVecField(fi *FieldInst) index.Field {
	panic("vector field in a build without the vectors tag")
}

func observeVec(seg segment.Segment, pr *Probes, o *Obs) error { return nil }

func vecProbesFor(u *universe, r *rand.Rand, ndocs int) []VecProbe { return nil }
