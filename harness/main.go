package main

import (
	"flag"
	"fmt"
	"math/rand"
	"os"
	"runtime/debug"
	"time"
)

func main() {
	if len(os.Args) < 2 {
		fmt.Fprintln(os.Stderr, "usage: zx <cmd> [flags]")
		os.Exit(2)
	}
	cmd := os.Args[1]
	if cmd == "leaf" {
		runLeaf(os.Args[2:])
		return
	}
	fs := flag.NewFlagSet(cmd, flag.ExitOnError)
	seed := fs.Int64("seed", 1, "seed")
	out := fs.String("out", "trace.ndjson", "trace output")
	dir := fs.String("dir", "", "scratch directory for segment files")
	n := fs.Int("n", 10, "number of scenarios")
	steps := fs.Int("steps", 8, "steps per scenario")
	profile := fs.String("profile", "rich", "generator profile")
	in := fs.String("in", "", "input file (edges / walks)")
	catalog := fs.String("catalog", "", "catalogue JSON emitted by TLC")
	tables := fs.String("tables", "", "expected-value tables emitted by TLC")
	batches := fs.String("batches", "", "batches emitted by TLC")
	quick := fs.Bool("quick", false, "quick tier (sampled flag combinations)")
	maxtlc := fs.Int("maxtlc", 0, "log files up to this size byte for byte (layout decoding by TLC)")
	nogc := fs.Bool("nogc", false, "park the garbage collector (build histories)")
	fs.Parse(os.Args[2:])
	defer func() {
		if r := recover(); r != nil {
			if u, ok := r.(unrepresentable); ok {
				fatal2("value %d not representable for TLC", u.v)
			}
			panic(r)
		}
	}()
	if *dir == "" {
		d, err := os.MkdirTemp("", "zx")
		if err != nil {
			fatal2("%v", err)
		}
		defer os.RemoveAll(d)
		*dir = d
	} else if err := os.MkdirAll(*dir, 0o755); err != nil {
		fatal2("%v", err)
	}
	debug.SetPanicOnFault(true) // a read of an unmapped page becomes a recoverable panic (per goroutine)
	r := rand.New(rand.NewSource(*seed))
	installValidator()
	switch cmd {
	case "life":
		tr := NewTracer(*out)
		startWatchdog(tr, 30*time.Second, 6<<30)
		l := NewLife(tr, r, *dir)
		l.maxTLC = *maxtlc
		runLifeProfile(l, *profile, *n, *steps)
		tr.Close()
		fmt.Printf("events=%d\n", tr.N)
	case "veccache":
		runVecCache(*in, *tables, *dir, *out, *n)
	case "outfile":
		runOutFile(*seed, *dir, *out, *quick)
	case "refcount":
		runRefCount(*in, *tables, *dir, *out, *n)
	case "chunkcoder":
		runChunkCoder(*in, *out)
	case "syncache":
		runSynCache(*in, *tables, *dir, *out)
	case "ctxpool":
		runCtxPool(*in, *tables, *dir, *out)
	case "dictiter":
		runDictIter(*in, *tables, *dir, *out)
	case "dvvisit":
		runDvVisit(*in, *tables, *dir, *out, *quick)
	case "postiter":
		runPostIter(*in, *tables, *batches, *dir, *out, *quick, *seed)
	case "corpus-gen":
		tr := NewTracer(*out)
		l := NewLife(tr, r, *dir)
		l.keepFiles = true
		l.CorpusGen(*in)
		tr.Close()
		fmt.Printf("events=%d\n", tr.N)
	case "corpus-open":
		tr := NewTracer(*out)
		l := NewLife(tr, r, *dir)
		nf := l.CorpusOpen(*in)
		tr.Close()
		fmt.Printf("files=%d events=%d\n", nf, tr.N)
	case "life-rerun":
		tr := NewTracer(*out)
		startWatchdog(tr, 30*time.Second, 6<<30)
		l := NewLife(tr, r, *dir)
		l.maxTLC = *maxtlc
		l.Rerun(*in)
		tr.Close()
		fmt.Printf("events=%d\n", tr.N)
	case "life-replay":
		tr := NewTracer(*out)
		startWatchdog(tr, 30*time.Second, 6<<30)
		l := NewLife(tr, r, *dir)
		l.maxTLC = *maxtlc
		if *nogc {
			l.parkGC = true
			debug.SetGCPercent(-1)
		}
		nw := l.ReplayWalks(*in, loadCatalog(*catalog))
		tr.Close()
		fmt.Printf("walks=%d events=%d\n", nw, tr.N)
	default:
		fmt.Fprintf(os.Stderr, "unknown command %s\n", cmd)
		os.Exit(2)
	}
}

func runLifeProfile(l *Life, profile string, n, steps int) {
	for i := 0; i < n; i++ {
		var p GenProfile
		switch profile {
		case "rich":
			p = RichProfile()
		case "lean":
			p = LeanProfile()
			l.light = true
		case "readstress":
			p = RichProfile()
			p.MinDocs, p.MaxDocs = 3, 12
			p.Syn = true
			l.ReadStress(&p, 8, steps, fmt.Sprintf("%s-%d", profile, i))
			continue
		case "vecstress":
			p = VecProfile()
			p.MinDocs, p.MaxDocs = 3, 12
			l.ReadStress(&p, 6, steps, fmt.Sprintf("readstress-vec-%d", i))
			continue
		case "buildseq":
			l.BuildSeqScenario(steps, fmt.Sprintf("%s-%d", profile, i))
			continue
		case "buildstress":
			l.BuildStress(6, steps, fmt.Sprintf("%s-%d", profile, i))
			continue
		case "engfail":
			l.EngineFailures([]string{"flat", "ivf", "big", "chain"}[i%4], fmt.Sprintf("%s-%d", profile, i))
			continue
		case "vec":
			p = VecProfile()
			if i%5 == 4 {
				l.VecChainScenario(fmt.Sprintf("%s-chain-%d", profile, i))
				continue
			}
			if i%10 == 3 {
				l.VecThresholdScenario(fmt.Sprintf("%s-threshold-%d", profile, i))
				continue
			}
		case "syn":
			p = SynProfile()
		case "mergey":
			p = MergeyProfile()
		case "bounds":
			l.BoundsScenario(fmt.Sprintf("%s-%d", profile, i))
			continue
		case "leanmulti":
			l.LeanMultiScenario(fmt.Sprintf("%s-%d", profile, i))
			continue
		case "sweep":
			l.light = true
			l.SweepScenario(fmt.Sprintf("%s-%d", profile, i))
			continue
		case "wide":
			p = WideProfile()
			l.light = true
			l.WideScenario(&p, fmt.Sprintf("%s-%d", profile, i))
			continue
		case "leancross":
			l.light = true
			l.LeanCrossScenario(fmt.Sprintf("%s-%d", profile, i))
			continue
		case "leanmerge":
			p = LeanProfile()
			l.light = true
			l.LeanMergeScenario(&p, fmt.Sprintf("%s-%d", profile, i))
			continue
		case "stored":
			p = RichProfile()
			p.StoredHeavy = true
			p.BigValues = i%3 == 0
		default:
			fatal2("unknown profile %s", profile)
		}
		l.RandomScenario(&p, steps, fmt.Sprintf("%s-%d", profile, i))
	}
}
