//go:build verif

package main

import zap "github.com/blevesearch/zapx/v16"

func builderResidue() map[string]int { return zap.VerifBuilderResidue() }

func ctxPoolSnapshot() []uintptr { return zap.VerifCtxPoolSnapshot() }

func setPollHook(f func()) { zap.VerifPollHook = f }

const hooksBuild = true
