package main

// Replay of TLC-generated lifecycle walks (spec -> impl direction).

import (
	"bufio"
	"encoding/json"
	"os"
)

type WalkDrop struct {
	Nil bool  `json:"nil"`
	Ds  []int `json:"ds"`
}

type WalkAct struct {
	Op    string     `json:"op"`
	Batch []int      `json:"batch"`
	Mode  int        `json:"mode"`
	Sid   int        `json:"sid"`
	Ins   []int      `json:"ins"`
	Drops []WalkDrop `json:"drops"`
}

type Walk struct {
	Acts []WalkAct `json:"acts"`
}

type Catalog struct {
	Docs []Doc `json:"docs"`
}

func loadCatalog(path string) *Catalog {
	raw, err := os.ReadFile(path)
	if err != nil {
		fatal2("catalog: %v", err)
	}
	var c Catalog
	if err := json.Unmarshal(raw, &c); err != nil {
		fatal2("catalog: %v", err)
	}
	for i := range c.Docs {
		c.Docs[i].Canon()
	}
	return &c
}

func forEachLine(path string, f func(line []byte)) {
	fh, err := os.Open(path)
	if err != nil {
		fatal2("%v", err)
	}
	defer fh.Close()
	sc := bufio.NewScanner(fh)
	sc.Buffer(make([]byte, 1<<20), 1<<28)
	for sc.Scan() {
		if len(sc.Bytes()) > 0 {
			f(sc.Bytes())
		}
	}
}

func (l *Life) ReplayWalks(walks string, cat *Catalog) int {
	lcms := []int{1024, 1, 2, 3}
	n := 0
	forEachLine(walks, func(line []byte) {
		var w Walk
		if err := json.Unmarshal(line, &w); err != nil {
			fatal2("walk: %v", err)
		}
		l.Reset(lcms[n%len(lcms)], "walk")
		n++
		if l.parkGC {
			// build histories: start from an empty pool and keep the collector away from it
			emptyPools()
		}
	acts:
		for _, a := range w.Acts {
			switch a.Op {
			case "build":
				b := make([]Doc, len(a.Batch))
				for i, ix := range a.Batch {
					b[i] = cat.Docs[ix-1]
				}
				if l.parkGC {
					l.noteResidue()
				}
				l.Build(b, a.Mode)
			case "persistopen":
				h := l.segs[a.Sid]
				if h == nil {
					break acts // an earlier step failed (logged); the rest of the walk cannot be executed
				}
				k := l.Persist(h)
				if _, ok := l.files[k]; ok {
					l.Open(k)
				}
			case "mergeopen":
				ins := []*hseg{}
				drops := []Drop{}
				for i, s := range a.Ins {
					h := l.segs[s]
					if h == nil {
						break acts
					}
					ins = append(ins, h)
					d := Drop{Nil: a.Drops[i].Nil, Ds: Ints(a.Drops[i].Ds)}
					if d.Ds == nil {
						d.Ds = Ints{}
					}
					drops = append(drops, d)
				}
				if k, ok := l.Merge(ins, drops, a.Mode); ok {
					l.Open(k)
				}
			case "gc":
				l.tr.Emit(EvNote{Ev: "note", Kind: "gc", Data: map[string]int{}})
				emptyPools()
			case "close":
				if h := l.segs[a.Sid]; h != nil {
					l.Close(h)
				}
			default:
				fatal2("unknown walk op %q", a.Op)
			}
		}
	})
	for _, h := range l.live() {
		l.Close(h)
	}
	return n
}
