package main

// Abstract documents (DESIGN Appendix A) and their realisation as
// index.Document / index.Field stubs.  Documents are built fresh for every
// build: TokenFrequencies.MergeAll mutates its arguments.

import (
	"encoding/json"
	"strconv"

	index "github.com/blevesearch/bleve_index_api"
)

// B is a byte string serialised as a JSON array of 0..255.
type B []byte

func (b B) MarshalJSON() ([]byte, error) {
	out := make([]byte, 0, 2+4*len(b))
	out = append(out, '[')
	for i, x := range b {
		if i > 0 {
			out = append(out, ',')
		}
		out = strconv.AppendInt(out, int64(x), 10)
	}
	out = append(out, ']')
	return out, nil
}

func (b *B) UnmarshalJSON(data []byte) error {
	var xs []int
	if err := json.Unmarshal(data, &xs); err != nil {
		return err
	}
	r := make([]byte, len(xs))
	for i, x := range xs {
		r[i] = byte(x)
	}
	*b = r
	return nil
}

// Ints is a []int that marshals nil as [].
type Ints []int

func (a Ints) MarshalJSON() ([]byte, error) {
	if a == nil {
		return []byte("[]"), nil
	}
	return json.Marshal([]int(a))
}

type Loc struct {
	F  B    `json:"f"` // empty = posting's own field
	P  int  `json:"p"`
	S  int  `json:"s"`
	E  int  `json:"e"`
	AP Ints `json:"ap"`
}

type Tok struct {
	T    B     `json:"t"`
	Fr   int   `json:"fr"`
	Locs []Loc `json:"locs"`
}

type Def struct {
	T    B   `json:"t"`
	Syns []B `json:"syns"`
}

const (
	KindText = 0
	KindSyn  = 1
	KindVec  = 2
)

type FieldInst struct {
	Name   B     `json:"name"`
	Kind   int   `json:"kind"`
	Stored bool  `json:"stored"`
	DV     bool  `json:"dv"`
	Typ    int   `json:"typ"`
	Value  B     `json:"value"`
	AP     Ints  `json:"ap"`
	Len    int   `json:"len"`
	Toks   []Tok `json:"toks"`
	Defs   []Def `json:"defs"`
	Vec    Ints  `json:"vec"`
	Dims   int   `json:"dims"`
	Metric int   `json:"metric"` // 0 l2, 1 dot, 2 cosine
	Opt    int   `json:"opt"`
	Reject bool  `json:"reject"` // the field validator installed by the harness rejects it
}

type Doc struct {
	ID        B           `json:"id"`
	Fields    []FieldInst `json:"fields"`
	Composite []FieldInst `json:"composite"`
}

func normFI(f *FieldInst) {
	if f.Name == nil {
		f.Name = B{}
	}
	if f.Value == nil {
		f.Value = B{}
	}
	if f.Toks == nil {
		f.Toks = []Tok{}
	}
	if f.Defs == nil {
		f.Defs = []Def{}
	}
	for i := range f.Toks {
		if f.Toks[i].T == nil {
			f.Toks[i].T = B{}
		}
		if f.Toks[i].Locs == nil {
			f.Toks[i].Locs = []Loc{}
		}
		for j := range f.Toks[i].Locs {
			if f.Toks[i].Locs[j].F == nil {
				f.Toks[i].Locs[j].F = B{}
			}
		}
	}
	for i := range f.Defs {
		if f.Defs[i].T == nil {
			f.Defs[i].T = B{}
		}
		if f.Defs[i].Syns == nil {
			f.Defs[i].Syns = []B{}
		}
	}
}

// Canon fills nil slices so that the JSON has a fixed shape.
func (d *Doc) Canon() {
	if d.ID == nil {
		d.ID = B{}
	}
	if d.Fields == nil {
		d.Fields = []FieldInst{}
	}
	if d.Composite == nil {
		d.Composite = []FieldInst{}
	}
	for i := range d.Fields {
		normFI(&d.Fields[i])
	}
	for i := range d.Composite {
		normFI(&d.Composite[i])
	}
}

// IDField returns the conventional `_id` field instance of a document.
func IDField(id B) FieldInst {
	return FieldInst{Name: B("_id"), Stored: true, Typ: int('t'), Value: id, Len: 1,
		Toks: []Tok{{T: id, Fr: 1}}}
}

// ---------------------------------------------------------------------------
// stubs

type stubField struct {
	fi *FieldInst
}

func (f *stubField) Name() string              { return string(f.fi.Name) }
func (f *stubField) Value() []byte             { return append([]byte(nil), f.fi.Value...) }
func (f *stubField) EncodedFieldType() byte    { return byte(f.fi.Typ) }
func (f *stubField) Analyze()                  {}
func (f *stubField) AnalyzedLength() int       { return f.fi.Len }
func (f *stubField) NumPlainTextBytes() uint64 { return uint64(len(f.fi.Value)) }
func (f *stubField) ArrayPositions() []uint64 {
	if len(f.fi.AP) == 0 {
		return nil
	}
	r := make([]uint64, len(f.fi.AP))
	for i, x := range f.fi.AP {
		r[i] = uint64(x)
	}
	return r
}
func (f *stubField) Options() index.FieldIndexingOptions {
	o := index.IndexField
	if f.fi.Stored {
		o |= index.StoreField
	}
	if f.fi.DV {
		o |= index.DocValues
	}
	// Whether occurrences carry locations is decided by the tokens (a composite field gets its sources'
	// locations whatever its own options say); the term-vector option is a free input that must not matter.
	// It is derived from the instance so that a re-run sees the same options.
	if (len(f.fi.Name)+len(f.fi.Toks)+f.fi.Len)%2 == 1 {
		o |= index.IncludeTermVectors
	}
	return o
}

// AnalyzedTokenFrequencies returns a fresh map on every call.
func (f *stubField) AnalyzedTokenFrequencies() index.TokenFrequencies {
	tfs := make(index.TokenFrequencies, len(f.fi.Toks))
	for i := range f.fi.Toks {
		t := &f.fi.Toks[i]
		tf := &index.TokenFreq{Term: append([]byte(nil), t.T...)}
		tf.SetFrequency(t.Fr)
		for _, l := range t.Locs {
			tl := &index.TokenLocation{Field: string(l.F), Start: l.S, End: l.E, Position: l.P}
			if len(l.AP) > 0 {
				tl.ArrayPositions = make([]uint64, len(l.AP))
				for k, x := range l.AP {
					tl.ArrayPositions[k] = uint64(x)
				}
			}
			tf.Locations = append(tf.Locations, tl)
		}
		tfs[string(t.T)] = tf
	}
	return tfs
}

type stubComposite struct{ stubField }

func (c *stubComposite) Compose(field string, length int, freq index.TokenFrequencies) {}

type stubSynField struct{ stubField }

func (s *stubSynField) IterateSynonyms(visitor func(term string, synonyms []string)) {
	for _, d := range s.fi.Defs {
		syns := make([]string, len(d.Syns))
		for i, x := range d.Syns {
			syns[i] = string(x)
		}
		visitor(string(d.T), syns)
	}
}

type stubDoc struct {
	d      *Doc
	fields []index.Field
	comps  []index.CompositeField
}

func (d *stubDoc) ID() string { return string(d.d.ID) }
func (d *stubDoc) Size() int  { return 0 }
func (d *stubDoc) VisitFields(v index.FieldVisitor) {
	for _, f := range d.fields {
		v(f)
	}
}
func (d *stubDoc) VisitComposite(v index.CompositeFieldVisitor) {
	for _, f := range d.comps {
		v(f)
	}
}
func (d *stubDoc) HasComposite() bool        { return len(d.comps) > 0 }
func (d *stubDoc) NumPlainTextBytes() uint64 { return 0 }
func (d *stubDoc) AddIDField()               {}
func (d *stubDoc) StoredFieldsBytes() uint64 { return 0 }
func (d *stubDoc) Indexed() bool             { return true }

type stubSynDoc struct{ stubDoc }

func (d *stubSynDoc) VisitSynonymFields(v index.SynonymFieldVisitor) {
	for _, f := range d.fields {
		if sf, ok := f.(index.SynonymField); ok {
			v(sf)
		}
	}
}

// MakeDocs realises abstract documents as fresh index.Documents (deep copies).
func MakeDocs(batch []Doc) []index.Document {
	raw, _ := json.Marshal(batch)
	var cp []Doc
	if err := json.Unmarshal(raw, &cp); err != nil {
		panic(err)
	}
	out := make([]index.Document, len(cp))
	for i := range cp {
		d := &cp[i]
		sd := stubDoc{d: d}
		hasSyn := false
		for j := range d.Fields {
			fi := &d.Fields[j]
			switch fi.Kind {
			case KindSyn:
				hasSyn = true
				sd.fields = append(sd.fields, &stubSynField{stubField{fi}})
			case KindVec:
				sd.fields = append(sd.fields, makeVecField(fi))
			default:
				sd.fields = append(sd.fields, &stubField{fi})
			}
		}
		for j := range d.Composite {
			sd.comps = append(sd.comps, &stubComposite{stubField{&d.Composite[j]}})
		}
		if hasSyn {
			out[i] = &stubSynDoc{sd}
		} else {
			x := sd
			out[i] = &x
		}
	}
	return out
}
