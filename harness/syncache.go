package main

// Replay of SynCache.tla behaviours on the real thesaurus cache of an mmap-opened segment: each look-up runs in
// its own goroutine and is parked at the verif gate between its two critical sections until the walk lets it go on.

import (
	"encoding/json"
	"fmt"
	"os"
	"path/filepath"
	"sort"
	"sync/atomic"
	"time"

	segment "github.com/blevesearch/scorch_segment_api/v2"
	zap "github.com/blevesearch/zapx/v16"
)

type scStep struct {
	P  int    `json:"p"`
	Op string `json:"op"`
}

type scWalk struct {
	Want  []int    `json:"want"`
	Steps []scStep `json:"steps"`
}

type scTables struct {
	Batch []Doc        `json:"batch"`
	Names []B          `json:"names"`
	Exp   [][]OSynPair `json:"exp"`
}

type scDiff struct {
	Walk scWalk `json:"walk"`
	Step int    `json:"step"`
	What string `json:"what"`
	Got  string `json:"got"`
	Want string `json:"want"`
}

type scGate struct{ reached, release chan struct{} }

var scCur atomic.Pointer[scGate]

type scResult struct {
	pairs []OSynPair
	err   error
}

func sortPairs(p []OSynPair) []OSynPair {
	q := append([]OSynPair{}, p...)
	sort.Slice(q, func(i, j int) bool {
		if string(q[i].S) != string(q[j].S) {
			return string(q[i].S) < string(q[j].S)
		}
		return q[i].D < q[j].D
	})
	return q
}

func runSynCache(walksPath, tablesPath, dir, outPath string) {
	var tb scTables
	raw, err := os.ReadFile(tablesPath)
	if err != nil {
		fatal2("%v", err)
	}
	if err := json.Unmarshal(raw, &tb); err != nil {
		fatal2("tables: %v", err)
	}
	for i := range tb.Batch {
		tb.Batch[i].Canon()
	}
	plugin := &zap.ZapPlugin{}
	zap.DefaultChunkMode = 1026
	mem, _, err := plugin.New(MakeDocs(tb.Batch))
	if err != nil {
		fatal2("syncache setup: %v", err)
	}
	os.MkdirAll(dir, 0o755)
	base := filepath.Join(dir, "sc-base.zap")
	os.Remove(base)
	if err := mem.(segment.UnpersistedSegment).Persist(base); err != nil {
		fatal2("syncache setup: %v", err)
	}
	mem.Close()
	data, _ := os.ReadFile(base)
	zap.VerifSynCacheGate = func() {
		if g := scCur.Swap(nil); g != nil {
			close(g.reached)
			<-g.release
		}
	}
	lookup := func(seg segment.Segment, name string) (r scResult) {
		defer func() {
			if x := recover(); x != nil {
				r.err = fmt.Errorf("panic: %v", x)
			}
		}()
		th, err := seg.(segment.ThesaurusSegment).Thesaurus(name)
		if err != nil {
			return scResult{err: err}
		}
		sl, err := th.SynonymsList([]byte{97}, nil, nil)
		if err != nil {
			return scResult{err: err}
		}
		it := sl.Iterator(nil)
		for {
			s, err := it.Next()
			if err != nil {
				return scResult{err: err}
			}
			if s == nil {
				break
			}
			r.pairs = append(r.pairs, OSynPair{S: B(s.Term()), D: int(s.Number())})
		}
		return r
	}
	var diffs []scDiff
	nw, nsteps, gated := 0, 0, 0
	forEachLine(walksPath, func(line []byte) {
		var w scWalk
		if err := json.Unmarshal(line, &w); err != nil {
			fatal2("walk: %v", err)
		}
		if len(diffs) >= 5 {
			return
		}
		nw++
		path := filepath.Join(dir, fmt.Sprintf("sc-%d.zap", nw))
		os.WriteFile(path, data, 0o600)
		defer os.Remove(path)
		seg, err := plugin.Open(path)
		if err != nil {
			diffs = append(diffs, scDiff{Walk: w, Step: -1, What: "Open", Got: err.Error()})
			return
		}
		diff := func(i int, what string, got, want interface{}) {
			diffs = append(diffs, scDiff{Walk: w, Step: i, What: what, Got: js(got), Want: js(want)})
		}
		type pending struct {
			g    *scGate
			done chan scResult
		}
		pend := map[int]*pending{}
		check := func(i, p int, r scResult) {
			want := tb.Exp[w.Want[p-1]-1]
			if r.err != nil {
				diff(i, "thesaurus look-up failed", r.err.Error(), nil)
			} else if js(sortPairs(r.pairs)) != js(sortPairs(want)) {
				diff(i, "thesaurus look-up result", sortPairs(r.pairs), sortPairs(want))
			}
		}
		blocked := false
		for i, st := range w.Steps {
			nsteps++
			name := string(tb.Names[w.Want[st.P-1]-1])
			switch st.Op {
			case "look":
				g := &scGate{reached: make(chan struct{}), release: make(chan struct{})}
				done := make(chan scResult, 1)
				scCur.Store(g)
				go func() { done <- lookup(seg, name) }()
				select {
				case <-g.reached:
					pend[st.P] = &pending{g, done}
					gated++
				case r := <-done:
					scCur.Store(nil)
					check(i, st.P, r)
				case <-time.After(10 * time.Second):
					diff(i, "look-up blocked: it neither finished nor reached its second section within 10 s", "blocked", "a result")
					blocked = true
				}
			case "fill":
				if p := pend[st.P]; p != nil {
					delete(pend, st.P)
					close(p.g.release)
					select {
					case r := <-p.done:
						check(i, st.P, r)
					case <-time.After(10 * time.Second):
						diff(i, "look-up blocked in its second section for 10 s", "blocked", "a result")
						blocked = true
					}
				}
			}
			if blocked {
				break
			}
		}
		for _, p := range pend {
			close(p.g.release)
		}
		scCur.Store(nil)
		if blocked {
			return
		}
		// afterwards the cache must be usable and the segment must close (the final release clears the cache
		// under its write lock)
		fin := make(chan error, 1)
		go func() {
			r := lookup(seg, string(tb.Names[0]))
			if r.err != nil {
				fin <- r.err
				return
			}
			fin <- seg.Close()
		}()
		select {
		case err := <-fin:
			if err != nil {
				diff(len(w.Steps), "look-up / close after the walk", err.Error(), nil)
			} else if m := mappingsOf(path); m != 0 {
				diff(len(w.Steps), "mappings after close", m, 0)
			}
		case <-time.After(10 * time.Second):
			diff(len(w.Steps), "a look-up or the final release blocked for 10 s after the walk (a lock was left behind)", "blocked", "released")
		}
	})
	tr := NewTracer(outPath)
	for _, d := range diffs {
		tr.Emit(d)
	}
	tr.Close()
	fmt.Printf("walks=%d steps=%d gated=%d diffs=%d\n", nw, nsteps, gated, len(diffs))
}
