//go:build vectors

package main

// Vector fields, probes and observation (build tag vectors, engine double).

import (
	"fmt"
	"math/rand"
	"sort"

	index "github.com/blevesearch/bleve_index_api"
	faiss "github.com/blevesearch/go-faiss"
	segment "github.com/blevesearch/scorch_segment_api/v2"
)

const vectorsBuild = true

type stubVecField struct{ stubField }

func (v *stubVecField) Vector() []float32 {
	r := make([]float32, len(v.fi.Vec))
	for i, x := range v.fi.Vec {
		r[i] = float32(x)
	}
	return r
}
func (v *stubVecField) Dims() int { return v.fi.Dims }
func (v *stubVecField) Similarity() string {
	switch v.fi.Metric {
	case 1:
		return index.InnerProduct
	case 2:
		return index.CosineSimilarity
	}
	return index.EuclideanDistance
}
func (v *stubVecField) IndexOptimizedFor() string {
	return index.VectorIndexOptimizationsReverseLookup[v.fi.Opt]
}

func makeVecField(fi *FieldInst) index.Field { return &stubVecField{stubField{fi}} }

func vecProbesFor(u *universe, r *rand.Rand, ndocs int) []VecProbe {
	if len(u.vecs) == 0 {
		return nil
	}
	out := []VecProbe{}
	fields := []string{}
	for f := range u.vecs {
		fields = append(fields, f)
	}
	sort.Strings(fields)
	subset := func(p int) []int {
		s := []int{}
		for d := 0; d < ndocs; d++ {
			if r.Intn(4) < p {
				s = append(s, d)
			}
		}
		return s
	}
	all := subset(4)
	for _, f := range fields {
		vs := u.vecs[f]
		dims := 0
		for _, v := range vs {
			if len(v) > 0 {
				dims = len(v)
				break
			}
		}
		if dims == 0 {
			continue
		}
		queries := [][]int{}
		for i := 0; i < 2 && i < len(vs); i++ {
			v := vs[r.Intn(len(vs))]
			if len(v) >= dims {
				queries = append(queries, append([]int{}, v[:dims]...))
			}
		}
		q := make([]int, dims)
		for i := range q {
			q[i] = r.Intn(9) - 4
		}
		queries = append(queries, q)
		nv := len(vs)
		ks := []int{1, 2, nv, nv + 1}
		if nv > 40 {
			ks = []int{1, 3, 10}
		}
		for _, q := range queries {
			for _, k := range ks {
				for _, ex := range [][]int{nil, {}, subset(1), subset(2)} {
					out = append(out, VecProbe{Field: f, Q: q, K: k, Ex: ex})
				}
				for _, el := range [][]int{{}, all, subset(1), subset(2), subset(3)} {
					out = append(out, VecProbe{Field: f, Q: q, K: k, Ex: subset(1), Filter: true, Elig: el})
					out = append(out, VecProbe{Field: f, Q: q, K: k, Ex: nil, Filter: true, Elig: el})
				}
			}
		}
		// wrong dimension, k = 0, everything excluded
		out = append(out, VecProbe{Field: f, Q: append(append([]int{}, q...), 1), K: 2})
		out = append(out, VecProbe{Field: f, Q: q, K: 0})
		out = append(out, VecProbe{Field: f, Q: q, K: 3, Ex: all})
	}
	// fields without vectors
	out = append(out, VecProbe{Field: "absent\x01field", Q: []int{1, 2}, K: 2})
	out = append(out, VecProbe{Field: "_id", Q: []int{1, 2}, K: 2})
	if len(out) > 400 {
		r.Shuffle(len(out), func(i, j int) { out[i], out[j] = out[j], out[i] })
		out = out[:400]
	}
	return out
}

type mapStats struct{ m map[string]map[string]uint64 }

func (s *mapStats) Store(statName, fieldName string, value uint64) {
	if s.m[statName] == nil {
		s.m[statName] = map[string]uint64{}
	}
	s.m[statName][fieldName] = value
}
func (s *mapStats) Aggregate(stats segment.FieldStats)  {}
func (s *mapStats) Fetch() map[string]map[string]uint64 { return s.m }

func searchOnce(vs segment.VectorSegment, p *VecProbe) (hits []OVecHit, err error) {
	vi, err := vs.InterpretVectorIndex(p.Field, p.Filter, bmOf(p.Ex))
	if err != nil {
		return nil, fmt.Errorf("InterpretVectorIndex(%q): %v", p.Field, err)
	}
	defer vi.Close()
	q := make([]float32, len(p.Q))
	for i, x := range p.Q {
		q[i] = float32(x)
	}
	var pl segment.VecPostingsList
	if p.Filter {
		el := make([]uint64, len(p.Elig))
		for i, d := range p.Elig {
			el[i] = uint64(d)
		}
		pl, err = vi.SearchWithFilter(q, int64(p.K), el, nil)
	} else {
		pl, err = vi.Search(q, int64(p.K), nil)
	}
	if err != nil {
		return nil, fmt.Errorf("vector search: %v", err)
	}
	hits = []OVecHit{}
	it := pl.Iterator(nil)
	for {
		vp, e := it.Next()
		if e != nil {
			return hits, e
		}
		if vp == nil {
			break
		}
		s := vp.Score()
		if float32(int64(s)) != s || s > 1e9 || s < -1e9 {
			return hits, fmt.Errorf("non-integer score %v for document %d", s, vp.Number())
		}
		hits = append(hits, OVecHit{D: ckInt(vp.Number()), S: int(s)})
	}
	return hits, nil
}

func observeVec(seg segment.Segment, pr *Probes, o *Obs) error {
	vs, ok := seg.(segment.VectorSegment)
	if !ok {
		return nil
	}
	for i := range pr.Vec {
		p := &pr.Vec[i]
		hits, err := searchOnce(vs, p)
		if err != nil {
			return err
		}
		ov := OVec{F: B(p.Field), Q: Ints(p.Q), K: p.K, Ex: Ints(p.Ex), Filter: p.Filter, Elig: Ints(p.Elig), R: hits, ExNil: p.Ex == nil}
		if ov.Ex == nil {
			ov.Ex = Ints{}
		}
		if ov.Elig == nil {
			ov.Elig = Ints{}
		}
		o.Vec = append(o.Vec, ov)
	}
	if fs, ok := seg.(segment.FieldStatsReporter); ok && len(pr.Vec) > 0 {
		st := &mapStats{m: map[string]map[string]uint64{}}
		fs.UpdateFieldStats(st)
		names := []string{}
		for f := range st.m["num_vectors"] {
			names = append(names, f)
		}
		sort.Strings(names)
		for _, f := range names {
			o.VStats = append(o.VStats, OVStat{F: B(f), N: ckInt(st.m["num_vectors"][f])})
		}
	}
	return nil
}

func engineStats() faiss.Stats { return faiss.VerifStats() }
