package main

// Seeded generators of abstract documents.  They stay inside the input domain
// listed in DESIGN §7.

import (
	"fmt"
	"math/rand"
	"sort"
)

type GenProfile struct {
	MinDocs, MaxDocs int
	FieldPool        []string
	TermPool         []string
	MaxFieldsPerDoc  int
	MaxToksPerField  int
	Composite        bool
	BigValues        bool // occasionally a stored value larger than a snappy block
	Syn              bool
	Vec              bool
	Lean             bool // big lean batches: few fields, skewed terms
	DupIDs           bool
	StoredHeavy      bool
	Wide             bool // more than 128 field names in a segment (field ids that need two varint bytes)
}

var richFields = []string{"a", "b", "body", "desc", "name", "tag", "té", "日本", "z", "A", "a1", "ab"}
var richTerms = []string{"", "a", "ab", "abc", "b", "cat", "dog", "x", "y", "zz", "café", "日本語", "\x00", "a\x00", "\x7f", "\xc3", "the", "of", "quick", "brown", "fox", "jumps"}

func RichProfile() GenProfile {
	return GenProfile{MinDocs: 0, MaxDocs: 9, FieldPool: richFields, TermPool: richTerms,
		MaxFieldsPerDoc: 5, MaxToksPerField: 5, Composite: true, DupIDs: true}
}

// MergeyProfile: few field names and terms, so that the segments of a merge overlap heavily while
// their per-batch doc-value / term-vector plans differ.
func MergeyProfile() GenProfile {
	return GenProfile{MinDocs: 1, MaxDocs: 6, FieldPool: []string{"a", "b", "c", "é"},
		TermPool:        []string{"", "a", "ab", "b", "x", "y", "café", "zz"},
		MaxFieldsPerDoc: 4, MaxToksPerField: 4, Composite: true, DupIDs: true}
}

// WideProfile: far more fields than fit in a one-byte varint field id, composite field with locations over them.
func WideProfile() GenProfile {
	pool := make([]string, 150)
	for i := range pool {
		pool[i] = fmt.Sprintf("w%03d", i)
	}
	return GenProfile{MinDocs: 5, MaxDocs: 9, FieldPool: pool, TermPool: []string{"a", "b", "x", "café"},
		MaxFieldsPerDoc: 60, MaxToksPerField: 2, Composite: true, Wide: true}
}

type vecFieldSpec struct {
	name              string
	dims, metric, opt int
}

var vecFields = []vecFieldSpec{{"v2", 2, 0, 0}, {"v3", 3, 1, 1}, {"vc", 2, 2, 2}}

// VecProfile mixes ordinary documents with vector fields (integer coordinates: scores are exact).
func VecProfile() GenProfile {
	p := MergeyProfile()
	p.Vec = true
	p.MinDocs, p.MaxDocs = 1, 9
	return p
}

var synThesauri = []string{"syn", "th1", "th2"}
var synLHS = []string{"a", "ab", "b", "café", "x", "zz", "\x00"}
var synRHS = []string{"a", "b", "x", "y", "quick", "日本", "zz"}

// SynProfile mixes ordinary and synonym documents.
func SynProfile() GenProfile {
	p := MergeyProfile()
	p.Syn = true
	p.MaxDocs = 8
	return p
}

func LeanProfile() GenProfile {
	return GenProfile{MinDocs: 1100, MaxDocs: 2200, FieldPool: []string{"f", "g"},
		TermPool: []string{"w0", "w1", "w2", "w3", "w4", "w5"}, MaxFieldsPerDoc: 2, MaxToksPerField: 3, Lean: true}
}

type batchPlan struct {
	dv map[string]bool
	tv map[string]bool
}

func zipf(r *rand.Rand, n int) int {
	// small skewed index
	x := r.Intn(n * (n + 1) / 2)
	for i := 0; i < n; i++ {
		x -= n - i
		if x < 0 {
			return i
		}
	}
	return n - 1
}

func randBytes(r *rand.Rand, n int) B {
	b := make(B, n)
	for i := range b {
		b[i] = byte(r.Intn(256))
	}
	return b
}

func randAP(r *rand.Rand) Ints {
	switch r.Intn(6) {
	case 0, 1, 2:
		return Ints{}
	case 3:
		return Ints{r.Intn(4)}
	case 4:
		return Ints{r.Intn(3), r.Intn(300)}
	default:
		n := 3 + r.Intn(3)
		ap := make(Ints, n)
		for i := range ap {
			ap[i] = r.Intn(100000)
		}
		return ap
	}
}

func genToks(r *rand.Rand, p *GenProfile, tv bool, srcFields []string) ([]Tok, int) {
	n := r.Intn(p.MaxToksPerField + 1)
	seen := map[string]bool{}
	toks := []Tok{}
	total := 0
	for i := 0; i < n; i++ {
		var t string
		if p.Lean {
			// term k present with decreasing probability
			t = p.TermPool[zipf(r, len(p.TermPool))]
		} else {
			t = p.TermPool[zipf(r, len(p.TermPool))]
			if r.Intn(8) == 0 {
				t = p.TermPool[r.Intn(len(p.TermPool))]
			}
		}
		if seen[t] {
			continue
		}
		seen[t] = true
		fr := 1
		if r.Intn(3) == 0 {
			fr = 1 + r.Intn(4)
		}
		if !p.Lean && r.Intn(30) == 0 {
			fr = 0
		}
		tok := Tok{T: B(t), Fr: fr, Locs: []Loc{}}
		if tv && fr > 0 {
			nl := fr
			if r.Intn(10) == 0 {
				nl = r.Intn(fr + 1) // fewer locations than occurrences
			}
			pos := 1 + r.Intn(5)
			for k := 0; k < nl; k++ {
				st := r.Intn(200)
				l := Loc{F: B{}, P: pos, S: st, E: st + 1 + r.Intn(12), AP: Ints{}}
				pos += 1 + r.Intn(3)
				if !p.Lean {
					l.AP = randAP(r)
				}
				if len(srcFields) > 0 {
					l.F = B(srcFields[r.Intn(len(srcFields))])
				}
				tok.Locs = append(tok.Locs, l)
			}
		}
		total += fr
		toks = append(toks, tok)
	}
	sort.Slice(toks, func(i, j int) bool { return string(toks[i].T) < string(toks[j].T) })
	// permute so that input order is not sorted
	r.Shuffle(len(toks), func(i, j int) { toks[i], toks[j] = toks[j], toks[i] })
	ln := total
	if len(toks) > 0 && ln < 1 {
		ln = 1
	}
	if len(toks) > 0 && r.Intn(4) == 0 {
		ln += r.Intn(5)
	}
	return toks, ln
}

// GenBatch returns a batch of abstract documents.  idBase makes ids unique
// across batches of one scenario unless duplicates are requested.
func idFieldDV(id B, dv bool) FieldInst {
	fi := IDField(id)
	fi.DV = dv
	return fi
}

func GenBatch(r *rand.Rand, p *GenProfile, idBase int) []Doc {
	n := p.MinDocs
	if p.MaxDocs > p.MinDocs {
		n += r.Intn(p.MaxDocs - p.MinDocs + 1)
	}
	plan := batchPlan{dv: map[string]bool{}, tv: map[string]bool{}}
	for _, f := range p.FieldPool {
		plan.dv[f] = r.Intn(2) == 0
		plan.tv[f] = r.Intn(2) == 0
	}
	plan.dv["_all"] = r.Intn(3) == 0
	// doc values on _id in about a third of the batches (seeded change C04-6: a re-opened segment that skips
	// field 0 when loading doc-value readers); derived from the batch's shape, not drawn, so that the random
	// stream of every earlier scenario is unchanged
	plan.dv["_id"] = ((uint32(idBase)*2654435761+uint32(n)*40503)>>7)%3 == 0
	plan.tv["_all"] = r.Intn(2) == 0 || p.Wide
	// a batch-level subset of the field pool so that field lists differ between batches
	pool := append([]string(nil), p.FieldPool...)
	if !p.Lean && !p.Wide {
		r.Shuffle(len(pool), func(i, j int) { pool[i], pool[j] = pool[j], pool[i] })
		k := 1 + r.Intn(len(pool))
		if k > 6 {
			k = 1 + r.Intn(6)
		}
		pool = pool[:k]
	}
	if p.Lean {
		// a batch-level subset of the terms, so that a term may be missing from some segments of a merge
		tp := append([]string(nil), p.TermPool...)
		r.Shuffle(len(tp), func(i, j int) { tp[i], tp[j] = tp[j], tp[i] })
		k := 3 + r.Intn(len(tp)-2)
		cp := *p
		cp.TermPool = tp[:k]
		p = &cp
	}
	vecSeen := map[string][]Ints{}
	docs := make([]Doc, n)
	for i := range docs {
		id := B(fmt.Sprintf("d%05d", idBase+i))
		if p.DupIDs && i > 0 && r.Intn(25) == 0 {
			id = docs[r.Intn(i)].ID
		}
		if p.DupIDs && r.Intn(60) == 0 {
			id = B{}
		}
		d := Doc{ID: id}
		if p.Syn && r.Intn(5) < 2 {
			// a synonym document: _id plus one or two synonym fields (distinct thesauri)
			d.Fields = append(d.Fields, idFieldDV(id, plan.dv["_id"]))
			names := append([]string(nil), synThesauri...)
			r.Shuffle(len(names), func(i, j int) { names[i], names[j] = names[j], names[i] })
			for k := 0; k < 1+r.Intn(2); k++ {
				fi := FieldInst{Name: B(names[k]), Kind: KindSyn}
				seen := map[string]bool{}
				for x := 0; x < 1+r.Intn(3); x++ {
					lhs := synLHS[zipf(r, len(synLHS))]
					if seen[lhs] {
						continue
					}
					seen[lhs] = true
					df := Def{T: B(lhs)}
					ss := map[string]bool{}
					for y := 0; y < 1+r.Intn(3); y++ {
						s := synRHS[r.Intn(len(synRHS))]
						if !ss[s] {
							ss[s] = true
							df.Syns = append(df.Syns, B(s))
						}
					}
					fi.Defs = append(fi.Defs, df)
				}
				if r.Intn(2) == 0 {
					d.Fields[0], fi = fi, d.Fields[0] // the _id field after the synonym field
					d.Fields = append(d.Fields, fi)
				} else {
					d.Fields = append(d.Fields, fi)
				}
			}
			d.Canon()
			docs[i] = d
			continue
		}
		nf := r.Intn(p.MaxFieldsPerDoc + 1)
		var wideNames []string
		if p.Wide {
			// every third name of the pool, so that any three consecutive documents cover all of it
			for j := i % 3; j < len(pool); j += 3 {
				wideNames = append(wideNames, pool[j])
			}
			nf = len(wideNames)
		}
		if p.Vec && r.Intn(4) != 0 {
			// vector fields: 0..3 integer vectors of one field in a document, duplicates across documents
			for _, vf := range vecFields {
				if r.Intn(3) == 0 {
					continue
				}
				k := 1
				if r.Intn(4) == 0 {
					k = 2 + r.Intn(2)
				}
				vec := Ints{}
				for s := 0; s < k; s++ {
					for c := 0; c < vf.dims; c++ {
						vec = append(vec, r.Intn(7)-3)
					}
				}
				if i > 0 && r.Intn(6) == 0 && len(vecSeen[vf.name]) > 0 {
					vec = append(Ints{}, vecSeen[vf.name][r.Intn(len(vecSeen[vf.name]))]...) // a duplicate of an earlier vector
				}
				vecSeen[vf.name] = append(vecSeen[vf.name], vec[:vf.dims])
				d.Fields = append(d.Fields, FieldInst{Name: B(vf.name), Kind: KindVec, Vec: vec, Dims: vf.dims, Metric: vf.metric, Opt: vf.opt})
			}
		}
		if p.Lean {
			nf = 1 + r.Intn(p.MaxFieldsPerDoc)
		}
		names := []string{}
		for k := 0; k < nf; k++ {
			name := pool[r.Intn(len(pool))]
			if p.Lean {
				name = pool[k%len(pool)]
			}
			if p.Wide {
				name = wideNames[k]
			}
			names = append(names, name)
			fi := FieldInst{Name: B(name), Typ: int("tndbgsi"[r.Intn(7)])}
			if r.Intn(40) == 0 {
				fi.Typ = r.Intn(256)
			}
			fi.Toks, fi.Len = genToks(r, p, plan.tv[name], nil)
			if r.Intn(6) == 0 && !p.Lean {
				fi.Toks, fi.Len = []Tok{}, 0 // stored-only instance
			}
			fi.DV = plan.dv[name] && r.Intn(5) != 0
			st := 3
			if p.StoredHeavy {
				st = 1
			}
			if r.Intn(st+1) <= 1 && !p.Lean || p.Lean && r.Intn(4) == 0 {
				fi.Stored = true
				vl := r.Intn(24)
				if r.Intn(5) == 0 {
					vl = 0
				}
				if p.BigValues && r.Intn(12) == 0 {
					vl = 70000 + r.Intn(60000)
				}
				fi.Value = randBytes(r, vl)
				if !p.Lean {
					fi.AP = randAP(r)
				}
			}
			d.Fields = append(d.Fields, fi)
		}
		if p.StoredHeavy && r.Intn(3) == 0 {
			// an array field: many stored values of one name, each with its array positions
			name := pool[r.Intn(len(pool))]
			names = append(names, name)
			k := 4 + r.Intn(9)
			for a := 0; a < k; a++ {
				fi := FieldInst{Name: B(name), Typ: int('t'), Stored: true, Value: randBytes(r, r.Intn(6)), AP: Ints{a}}
				if r.Intn(3) == 0 {
					fi.AP = Ints{a, r.Intn(50), r.Intn(5)}
				}
				fi.Toks, fi.Len = genToks(r, p, plan.tv[name], nil)
				fi.DV = plan.dv[name]
				d.Fields = append(d.Fields, fi)
			}
		}
		if p.Lean && r.Intn(2) == 0 {
			// a second value of the first field (multi-valued field: frequencies of shared terms are merged)
			name := pool[0]
			fi := FieldInst{Name: B(name), Typ: int('t'), AP: Ints{1}}
			fi.Toks, fi.Len = genToks(r, p, plan.tv[name], nil)
			fi.DV = plan.dv[name]
			d.Fields = append(d.Fields, fi)
		}
		// the _id field at a random position
		pos := r.Intn(len(d.Fields) + 1)
		d.Fields = append(d.Fields, FieldInst{})
		copy(d.Fields[pos+1:], d.Fields[pos:])
		d.Fields[pos] = idFieldDV(id, plan.dv["_id"])
		if p.Composite && len(names) > 0 && (r.Intn(2) == 0 || p.Wide) {
			ci := FieldInst{Name: B("_all")}
			cp := p
			if p.Wide {
				// every term, so that the composite's postings lists span all documents
				w := *p
				w.MaxToksPerField = 3 * len(p.TermPool)
				cp = &w
			}
			ci.Toks, ci.Len = genToks(r, cp, plan.tv["_all"], names)
			ci.DV = plan.dv["_all"]
			d.Composite = append(d.Composite, ci)
		}
		d.Canon()
		docs[i] = d
	}
	return docs
}
