package main

// C07: replay of PostIter walks (every call sequence over every P, E) on real
// postings iterators, under every chunk size / provenance / detail-flag /
// access variant.  Expected values come from TLC (walks + tables).

import (
	"encoding/json"
	"fmt"
	"os"
	"path/filepath"
	"reflect"
	"runtime"
	"runtime/debug"
	"sort"
	"sync"

	"github.com/RoaringBitmap/roaring/v2"
	segment "github.com/blevesearch/scorch_segment_api/v2"
	zap "github.com/blevesearch/zapx/v16"
)

type piCall struct {
	Op  string `json:"op"`
	T   int    `json:"t"`
	Ret int    `json:"ret"`
}

type piWalk struct {
	P     []int    `json:"p"`
	E     []int    `json:"e"`
	Count int      `json:"count"`
	Calls []piCall `json:"calls"`
}

type piClasses struct {
	C0 OHit `json:"c0"`
	C1 OHit `json:"c1"`
	C2 OHit `json:"c2"`
}

type piTables struct {
	N     int                  `json:"n"`
	Rich  map[string]piClasses `json:"rich"`
	Plain map[string]piClasses `json:"plain"`
	Fill  map[string]piClasses `json:"fill"`
}

type piBatch struct {
	P     []int `json:"p"`
	Batch []Doc `json:"batch"`
}

type piDiff struct {
	Walk    piWalk  `json:"walk"`
	Kind    string  `json:"kind"`
	Mode    int     `json:"mode"`
	Target  string  `json:"target"`
	Flags   [3]bool `json:"flags"`
	Variant string  `json:"variant"`
	What    string  `json:"what"`
	Got     string  `json:"got"`
	Want    string  `json:"want"`
}

func keyInts(xs []int) string { return fmt.Sprint(xs) }

type piSegs struct {
	segs map[string]segment.Segment // kind -> segment
}

func hitOf(p segment.Posting) OHit {
	h := OHit{D: int(p.Number()), Fr: int(p.Frequency()), Locs: []OLoc{}}
	if nu, ok := p.(interface{ NormUint64() uint64 }); ok {
		h.Nm = int(nu.NormUint64())
	}
	for _, l := range p.Locations() {
		h.Locs = append(h.Locs, OLoc{F: B(l.Field()), P: int(l.Pos()), S: int(l.Start()), E: int(l.End()), AP: ap2ints(l.ArrayPositions())})
	}
	return h
}

func canonHit(h OHit) OHit {
	if h.Locs == nil {
		h.Locs = []OLoc{}
	}
	for i := range h.Locs {
		if h.Locs[i].AP == nil {
			h.Locs[i].AP = Ints{}
		}
		if h.Locs[i].F == nil {
			h.Locs[i].F = B{}
		}
	}
	return h
}

type piRunner struct {
	tables  piTables
	batches map[string][]Doc
	dir     string
	plugin  *zap.ZapPlugin
	modes   []int
	flags   [][3]bool
	diffs   []piDiff
	runs    int
	classes map[string]int
	nfile   int
}

func (r *piRunner) buildSegs(p []int, mode int) (map[string]segment.Segment, error) {
	zap.DefaultChunkMode = uint32(mode)
	batch := r.batches[keyInts(p)]
	if batch == nil {
		fatal2("no batch for P=%v", p)
	}
	out := map[string]segment.Segment{}
	seg, _, err := r.plugin.New(MakeDocs(batch))
	if err != nil {
		return nil, fmt.Errorf("build: %v", err)
	}
	out["mem"] = seg
	r.nfile++
	path := filepath.Join(r.dir, fmt.Sprintf("pi%d.zap", r.nfile))
	if err := seg.(segment.UnpersistedSegment).Persist(path); err != nil {
		return nil, fmt.Errorf("persist: %v", err)
	}
	ms, err := r.plugin.Open(path)
	if err != nil {
		return nil, fmt.Errorf("open: %v", err)
	}
	out["mmap"] = ms
	r.nfile++
	mpath := filepath.Join(r.dir, fmt.Sprintf("pi%d.zap", r.nfile))
	if _, _, err := r.plugin.Merge([]segment.Segment{seg}, []*roaring.Bitmap{nil}, mpath, nil, nil); err != nil {
		return nil, fmt.Errorf("merge: %v", err)
	}
	mg, err := r.plugin.Open(mpath)
	if err != nil {
		return nil, fmt.Errorf("open merged: %v", err)
	}
	out["merged"] = mg
	return out, nil
}

func classOf(fl [3]bool) int {
	if fl[2] {
		return 2
	}
	if fl[0] || fl[1] {
		return 1
	}
	return 0
}

func (r *piRunner) want(target string, d, cls int) OHit {
	var tb map[string]piClasses
	switch target {
	case "rich":
		tb = r.tables.Rich
	case "plain":
		tb = r.tables.Plain
	default:
		tb = r.tables.Fill
	}
	c := tb[fmt.Sprint(d)]
	switch cls {
	case 0:
		return canonHit(c.C0)
	case 1:
		return canonHit(c.C1)
	}
	return canonHit(c.C2)
}

func js(x interface{}) string {
	b, _ := json.Marshal(x)
	return string(b)
}

// runOne executes one walk on one configuration.
func (r *piRunner) runOne(w *piWalk, seg segment.Segment, kind string, mode int, target string, fl [3]bool, variant string) {
	r.runs++
	diff := func(what string, got, want interface{}) {
		r.diffs = append(r.diffs, piDiff{Walk: *w, Kind: kind, Mode: mode, Target: target, Flags: fl, Variant: variant,
			What: what, Got: js(got), Want: js(want)})
	}
	defer func() {
		if x := recover(); x != nil {
			if u, ok := x.(unrepresentable); ok {
				panic(u)
			}
			diff("panic", fmt.Sprint(x), "no panic")
		}
	}()
	field, term := "f", "t"
	if target == "plain" {
		field, term = "g", "s"
	}
	dict, err := seg.Dictionary(field)
	if err != nil {
		diff("Dictionary", err.Error(), nil)
		return
	}
	var prePL segment.PostingsList
	var preIt segment.PostingsIterator
	if variant == "reuse" || variant == "reuse-other" {
		// objects used before on the filler term of the other field (postings = all documents), partly consumed
		of := "f"
		if variant == "reuse-other" && field == "f" {
			of = "g"
		}
		od, _ := seg.Dictionary(of)
		prePL, err = od.PostingsList([]byte("u"), bmOf([]int{0}), nil)
		if err != nil {
			diff("PostingsList(prealloc source)", err.Error(), nil)
			return
		}
		preIt = prePL.Iterator(true, true, true, nil)
		preIt.Next()
		preIt.Next()
	}
	var except *roaring.Bitmap
	switch variant {
	case "except", "reuse", "reuse-other":
		if len(w.E) > 0 {
			except = bmOf(w.E)
		}
	case "emptybm":
		except = roaring.New()
	case "replace":
		except = nil
	}
	pl, err := dict.PostingsList([]byte(term), except, prePL)
	if err != nil {
		diff("PostingsList", err.Error(), nil)
		return
	}
	live := []int{}
	inE := map[int]bool{}
	for _, e := range w.E {
		inE[e] = true
	}
	for _, p := range w.P {
		if !inE[p] {
			live = append(live, p)
		}
	}
	if variant != "replace" {
		if int(pl.Count()) != w.Count {
			diff("Count", pl.Count(), w.Count)
		}
	}
	it := pl.Iterator(fl[0], fl[1], fl[2], preIt)
	opt, isOpt := it.(segment.OptimizablePostingsIterator)
	if variant == "replace" {
		if !isOpt || opt.ActualBitmap() == nil {
			return // nothing to replace (single-hit or empty list)
		}
		opt.ReplaceActual(bmOf(append([]int{}, live...)))
		r.classes["replace"]++
	} else if isOpt {
		if d1, ok := opt.DocNum1Hit(); ok {
			r.classes["1hit"]++
			if len(live) != 1 || int(d1) != live[0] {
				diff("DocNum1Hit", d1, live)
			}
		} else if abm := opt.ActualBitmap(); abm != nil {
			got := []int{}
			for _, x := range abm.ToArray() {
				got = append(got, int(x))
			}
			if !reflect.DeepEqual(got, live) {
				diff("ActualBitmap", got, live)
			}
		}
	}
	cls := classOf(fl)
	for i, c := range w.Calls {
		var p segment.Posting
		var e error
		if c.Op == "next" {
			p, e = it.Next()
		} else {
			p, e = it.Advance(uint64(c.T))
		}
		if e != nil {
			diff(fmt.Sprintf("call %d error", i), e.Error(), c.Ret)
			return
		}
		if p == nil {
			if c.Ret != -1 {
				diff(fmt.Sprintf("call %d %s(%d)", i, c.Op, c.T), nil, c.Ret)
				return
			}
			continue
		}
		if c.Ret == -1 {
			diff(fmt.Sprintf("call %d %s(%d)", i, c.Op, c.T), hitOf(p), nil)
			return
		}
		got := canonHit(hitOf(p))
		want := r.want(target, c.Ret, cls)
		if !reflect.DeepEqual(got, want) {
			diff(fmt.Sprintf("call %d %s(%d)", i, c.Op, c.T), got, want)
			return
		}
	}
}

func runPostIter(walksPath, tablesPath, batchesPath, dir, outPath string, quick bool, seed int64) {
	r := &piRunner{batches: map[string][]Doc{}, dir: dir, plugin: &zap.ZapPlugin{}, classes: map[string]int{}}
	raw, err := os.ReadFile(tablesPath)
	if err != nil {
		fatal2("%v", err)
	}
	if err := json.Unmarshal(raw, &r.tables); err != nil {
		fatal2("tables: %v", err)
	}
	forEachLine(batchesPath, func(line []byte) {
		var b piBatch
		if err := json.Unmarshal(line, &b); err != nil {
			fatal2("batch: %v", err)
		}
		for i := range b.Batch {
			b.Batch[i].Canon()
		}
		r.batches[keyInts(b.P)] = b.Batch
	})
	r.modes = []int{1, 2, 3, 1025}
	all := [][3]bool{}
	for m := 0; m < 8; m++ {
		all = append(all, [3]bool{m&1 != 0, m&2 != 0, m&4 != 0})
	}
	// group walks by P
	groups := map[string][]*piWalk{}
	order := []string{}
	nw := 0
	forEachLine(walksPath, func(line []byte) {
		w := &piWalk{}
		if err := json.Unmarshal(line, w); err != nil {
			fatal2("walk: %v", err)
		}
		if w.P == nil {
			w.P = []int{}
		}
		if w.E == nil {
			w.E = []int{}
		}
		k := keyInts(w.P)
		if groups[k] == nil {
			order = append(order, k)
		}
		groups[k] = append(groups[k], w)
		nw++
	})
	sort.Strings(order)
	variants := []string{"except", "replace", "reuse", "reuse-other"}
	// segments are built sequentially (the chunk mode is a package variable), walks run in parallel
	type job struct {
		ws   []*piWalk
		mode int
		segs map[string]segment.Segment
	}
	jobs := []job{}
	for _, k := range order {
		ws := groups[k]
		for _, mode := range r.modes {
			segs, err := r.buildSegs(ws[0].P, mode)
			if err != nil {
				r.diffs = append(r.diffs, piDiff{Walk: *ws[0], Mode: mode, What: "setup", Got: err.Error()})
				continue
			}
			jobs = append(jobs, job{ws, mode, segs})
		}
	}
	var mu sync.Mutex
	var wg sync.WaitGroup
	sem := make(chan struct{}, runtime.NumCPU())
	for _, jb := range jobs {
		wg.Add(1)
		sem <- struct{}{}
		go func(jb job) {
			debug.SetPanicOnFault(true)
			defer wg.Done()
			defer func() { <-sem }()
			lr := &piRunner{tables: r.tables, classes: map[string]int{}}
			for wi, w := range jb.ws {
				for _, kind := range []string{"mem", "mmap", "merged"} {
					for _, target := range []string{"rich", "plain"} {
						flags := all
						if quick {
							// three detail classes always, the other combinations rotate
							flags = [][3]bool{{false, false, false}, {true, true, false}, {true, true, true}, all[(wi+int(seed))%8]}
						}
						for _, fl := range flags {
							vs := variants
							if len(w.E) == 0 {
								vs = append(append([]string{}, variants...), "emptybm")
							}
							for _, v := range vs {
								lr.runOne(w, jb.segs[kind], kind, jb.mode, target, fl, v)
							}
						}
					}
				}
			}
			mu.Lock()
			r.runs += lr.runs
			r.diffs = append(r.diffs, lr.diffs...)
			for k, v := range lr.classes {
				r.classes[k] += v
			}
			mu.Unlock()
		}(jb)
	}
	wg.Wait()
	for _, jb := range jobs {
		for _, s := range jb.segs {
			s.Close()
		}
	}
	tr := NewTracer(outPath)
	for i, d := range r.diffs {
		if i < 200 {
			tr.Emit(d)
		}
	}
	tr.Close()
	fmt.Printf("walks=%d groups=%d runs=%d diffs=%d onehit=%d replace=%d\n", nw, len(groups), r.runs, len(r.diffs), r.classes["1hit"], r.classes["replace"])
}
