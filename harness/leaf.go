package main

// Leaf decoder for ZapLayout.tla: the three third-party formats that zapx embeds but does not define
// (vellum FST, roaring bitmaps, snappy blocks) are decoded by their own libraries at the offsets that
// the TLA+ decoder computed; the result is written as JSON for TLC to read (DESIGN 2.5).

import (
	"bytes"
	"encoding/json"
	"os"
	"strconv"

	"github.com/RoaringBitmap/roaring/v2"
	"github.com/RoaringBitmap/roaring/v2/roaring64"
	"github.com/blevesearch/vellum"
	"github.com/golang/snappy"
)

func limbs(v uint64) []int {
	return []int{int(v >> 48 & 0xffff), int(v >> 32 & 0xffff), int(v >> 16 & 0xffff), int(v & 0xffff)}
}

func runLeaf(args []string) {
	if len(args) != 5 {
		fatal2("usage: zx leaf <fst|roaring|roaring64|snappy> <file> <from> <len> <out.json>")
	}
	kind, path, out := args[0], args[1], args[4]
	from, _ := strconv.Atoi(args[2])
	n, _ := strconv.Atoi(args[3])
	data, err := os.ReadFile(path)
	if err != nil {
		fatal2("leaf: %v", err)
	}
	if from < 0 || n < 0 || from+n > len(data) {
		fatal2("leaf: range %d+%d outside the file (%d bytes)", from, n, len(data))
	}
	b := data[from : from+n]
	var res interface{}
	switch kind {
	case "fst":
		fst, err := vellum.Load(b)
		if err != nil {
			fatal2("leaf fst: %v", err)
		}
		type ent struct {
			K B     `json:"k"`
			V []int `json:"v"`
		}
		ents := []ent{}
		it, err := fst.Iterator(nil, nil)
		for err == nil {
			k, v := it.Current()
			ents = append(ents, ent{K: append(B{}, k...), V: limbs(v)})
			err = it.Next()
		}
		if err != vellum.ErrIteratorDone {
			fatal2("leaf fst iterate: %v", err)
		}
		res = ents
	case "roaring":
		bm := roaring.New()
		if _, err := bm.FromBuffer(b); err != nil {
			fatal2("leaf roaring: %v", err)
		}
		xs := []int{}
		for _, x := range bm.ToArray() {
			xs = append(xs, int(x))
		}
		res = xs
	case "roaring64":
		bm := roaring64.New()
		if _, err := bm.ReadFrom(bytes.NewReader(b)); err != nil {
			fatal2("leaf roaring64: %v", err)
		}
		xs := [][]int{}
		for _, x := range bm.ToArray() {
			xs = append(xs, []int{int(x >> 32), int(x & 0xffffffff)})
		}
		res = xs
	case "snappy":
		dec, err := snappy.Decode(nil, b)
		if err != nil {
			fatal2("leaf snappy: %v", err)
		}
		res = B(dec)
	default:
		fatal2("leaf: unknown kind %s", kind)
	}
	raw, _ := json.Marshal(res)
	if err := os.WriteFile(out, raw, 0o644); err != nil {
		fatal2("leaf: %v", err)
	}
}
