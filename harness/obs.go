package main

// Projection of a real segment to the abstract observation (DESIGN §3.2).
// Only the public API is used.  Probes are derived from the *inputs* (which
// fields / terms / ids to ask for); no expected answer is computed here —
// TLC is the oracle.

import (
	"fmt"
	"os"
	"runtime/debug"
	"sort"

	"github.com/RoaringBitmap/roaring/v2"
	segment "github.com/blevesearch/scorch_segment_api/v2"
)

type OLoc struct {
	F  B    `json:"f"`
	P  int  `json:"p"`
	S  int  `json:"s"`
	E  int  `json:"e"`
	AP Ints `json:"ap"`
}

type OHit struct {
	D    int    `json:"d"`
	Fr   int    `json:"fr"`
	Nm   int    `json:"nm"`
	Locs []OLoc `json:"locs"`
}

type OPost struct {
	F    B      `json:"f"`
	T    B      `json:"t"`
	N    int    `json:"n"`
	Hits []OHit `json:"hits"`
	Pre  bool   `json:"pre"` // read through a postings list / iterator reused from the previous probes
}

// OIter: a random Next/Advance sequence on one postings list with an exclusion bitmap and detail flags
type OIterCall struct {
	Op  string `json:"op"`
	T   int    `json:"t"`
	Nil bool   `json:"nil"`
	Hit OHit   `json:"hit"`
}

type OIter struct {
	F     B           `json:"f"`
	T     B           `json:"t"`
	Ex    Ints        `json:"ex"`
	Cls   int         `json:"cls"` // 0 no details, 1 freq/norm, 2 freq/norm/locations
	N     int         `json:"n"`   // Count()
	Calls []OIterCall `json:"calls"`
}

type IterProbe struct {
	F, T  string
	Ex    []int
	Flags [3]bool
	Skips []int // per call: -1 = Next, s >= 0 = Advance(last + 1 + s)
}

type ODictEnt struct {
	T B   `json:"t"`
	N int `json:"n"`
}

type OHas struct {
	K B    `json:"k"`
	R bool `json:"r"`
}

type ODict struct {
	F    B          `json:"f"`
	Card int        `json:"card"`
	Ents []ODictEnt `json:"ents"`
	Has  []OHas     `json:"has"`
}

type OVal struct {
	F  B    `json:"f"`
	Ty int  `json:"ty"`
	V  B    `json:"v"`
	AP Ints `json:"ap"`
}

type OStored struct {
	D    int    `json:"d"`
	ID   B      `json:"id"`   // DocID()
	Vals []OVal `json:"vals"` // full visit
	Stop Ints   `json:"stop"` // stop[k] = callbacks seen when the visitor returns false at its (k+1)-th call
}

type ODocNums struct {
	IDs []B  `json:"ids"`
	R   Ints `json:"r"`
}

type ODvT struct {
	F B `json:"f"`
	T B `json:"t"`
}

type ODv struct {
	D  int    `json:"d"`
	Fs []B    `json:"fs"`
	R  []ODvT `json:"r"`
}

type OSynPair struct {
	S B   `json:"s"`
	D int `json:"d"`
}

type OSyn struct {
	T  B          `json:"t"`
	Ex Ints       `json:"ex"`
	R  []OSynPair `json:"r"`
}

type OThes struct {
	Name  B      `json:"name"`
	Terms []B    `json:"terms"`
	Has   []OHas `json:"has"`
	Syns  []OSyn `json:"syns"`
}

type Obs struct {
	Count   int        `json:"count"`
	Fields  []B        `json:"fields"`
	DvF     []B        `json:"dvf"`
	Dicts   []ODict    `json:"dicts"`
	Posts   []OPost    `json:"posts"`
	Stored  []OStored  `json:"stored"`
	DocNums []ODocNums `json:"docnums"`
	Dv      []ODv      `json:"dv"`
	Thes    []OThes    `json:"thes"`
	Vec     []OVec     `json:"vec"`
	VStats  []OVStat   `json:"vstats"`
	Errs    []OErr     `json:"errs"`
	Sampled []B        `json:"sampled"`
	Iter    []OIter    `json:"iter"`
}

// OErr records an error or panic of an in-domain call, per aspect.
type OErr struct {
	Asp string `json:"asp"`
	Msg string `json:"msg"`
}

// Probes says what to ask a segment; derived from inputs only.
type Probes struct {
	Fields   []string            // dictionaries to enumerate (present and absent names)
	Terms    map[string][]string // field -> terms whose postings are read (present and absent)
	IDSets   [][]string          // DocNumbers probes
	DvSets   [][]string          // field lists for VisitDocValues
	DvDocs   []int               // nil = all docs
	Stops    int                 // early-stop variants per document (0..Stops-1)
	Thes     map[string][]string // thesaurus name -> lhs terms (present and absent)
	SynEx    [][]int             // exclusion bitmaps for synonym probes
	Vec      []VecProbe
	NoStored bool
	Sampled  []string // fields whose postings probes are a sample of the input terms
	Iter     []IterProbe
}

func bs(ss []string) []B {
	r := make([]B, len(ss))
	for i, s := range ss {
		r[i] = B(s)
	}
	return r
}

func ap2ints(ap []uint64) Ints {
	r := make(Ints, len(ap))
	for i, x := range ap {
		r[i] = ckInt(x)
	}
	return r
}

// ckInt maps values TLC cannot represent (>= 2^31) to -2: no in-domain input produces one, so the
// specification's comparison reports it as a mismatch instead of the run being abandoned.
func ckInt(x uint64) int {
	if x >= 1<<31 {
		return -2
	}
	return int(x)
}

type unrepresentable struct{ v uint64 }

func readHits(pl segment.PostingsList, pre *segment.PostingsIterator) (n int, hits []OHit, err error) {
	n = ckInt(pl.Count())
	var it segment.PostingsIterator
	if pre != nil {
		it = pl.Iterator(true, true, true, *pre)
		*pre = it
	} else {
		it = pl.Iterator(true, true, true, nil)
	}
	hits, err = drain(it)
	return n, hits, err
}

func drain(it segment.PostingsIterator) (hits []OHit, err error) {
	hits = []OHit{}
	for {
		p, e := it.Next()
		if e != nil {
			return hits, e
		}
		if p == nil {
			break
		}
		h := OHit{D: ckInt(p.Number()), Fr: ckInt(p.Frequency()), Locs: []OLoc{}}
		if nu, ok := p.(interface{ NormUint64() uint64 }); ok {
			h.Nm = ckInt(nu.NormUint64())
		} else {
			h.Nm = -1
		}
		for _, l := range p.Locations() {
			h.Locs = append(h.Locs, OLoc{F: B(l.Field()), P: ckInt(l.Pos()), S: ckInt(l.Start()),
				E: ckInt(l.End()), AP: ap2ints(l.ArrayPositions())})
		}
		hits = append(hits, h)
		if len(hits) > 1<<20 {
			return hits, fmt.Errorf("iterator does not end")
		}
	}
	return hits, nil
}

func bmOf(xs []int) *roaring.Bitmap {
	if xs == nil {
		return nil
	}
	b := roaring.New()
	for _, x := range xs {
		b.Add(uint32(x))
	}
	return b
}

func emptyObs() *Obs {
	return &Obs{Fields: []B{}, DvF: []B{}, Dicts: []ODict{}, Posts: []OPost{}, Stored: []OStored{},
		DocNums: []ODocNums{}, Dv: []ODv{}, Thes: []OThes{}, Vec: []OVec{}, VStats: []OVStat{}, Errs: []OErr{}, Sampled: []B{}, Iter: []OIter{}}
}

// Observe projects seg.  Each aspect is guarded: an error or panic of an
// in-domain call is recorded in Errs (a verdict for the specification, not an
// infrastructure failure); unrepresentable values abort the run (exit 2).
func Observe(seg segment.Segment, pr *Probes) (o *Obs) {
	o = &Obs{Fields: []B{}, DvF: []B{}, Dicts: []ODict{}, Posts: []OPost{}, Stored: []OStored{},
		DocNums: []ODocNums{}, Dv: []ODv{}, Thes: []OThes{}, Vec: []OVec{}, VStats: []OVStat{}, Errs: []OErr{}, Sampled: bs(pr.Sampled), Iter: []OIter{}}
	guard := func(asp string, f func() error) {
		defer func() {
			if r := recover(); r != nil {
				if u, ok := r.(unrepresentable); ok {
					panic(u)
				}
				if os.Getenv("VERIF_DEBUG") != "" {
					fmt.Fprintf(os.Stderr, "panic in %s: %v\n%s\n", asp, r, debug.Stack())
				}
				o.Errs = append(o.Errs, OErr{Asp: asp, Msg: fmt.Sprintf("panic: %v", r)})
			}
		}()
		if e := f(); e != nil {
			o.Errs = append(o.Errs, OErr{Asp: asp, Msg: e.Error()})
		}
	}
	dvv, isDv := seg.(segment.DocValueVisitable)
	guard("meta", func() error {
		o.Count = ckInt(seg.Count())
		o.Fields = bs(seg.Fields())
		if isDv {
			fs, e := dvv.VisitableDocValueFields()
			if e != nil {
				return fmt.Errorf("VisitableDocValueFields: %v", e)
			}
			o.DvF = bs(fs)
		}
		return nil
	})
	guard("dicts", func() error { return observeDicts(seg, pr, o) })
	guard("iter", func() error { return observeIter(seg, pr, o) })
	if !pr.NoStored {
		guard("stored", func() error { return observeStored(seg, pr, o) })
	}
	guard("docnums", func() error {
		for _, ids := range pr.IDSets {
			bm, e := seg.DocNumbers(ids)
			if e != nil {
				return fmt.Errorf("DocNumbers: %v", e)
			}
			r := Ints{}
			for _, x := range bm.ToArray() {
				r = append(r, int(x))
			}
			o.DocNums = append(o.DocNums, ODocNums{IDs: bs(ids), R: r})
		}
		return nil
	})
	if isDv {
		guard("dv", func() error { return observeDv(dvv, pr, o) })
	}
	guard("thes", func() error { return observeThes(seg, pr, o) })
	guard("vec", func() error { return observeVec(seg, pr, o) })
	return o
}

func observeDicts(seg segment.Segment, pr *Probes, o *Obs) error {
	var keyBuf []byte
	fields := append([]string(nil), pr.Fields...)
	sort.Strings(fields)
	var prePL segment.PostingsList
	var preIt segment.PostingsIterator
	for _, f := range fields {
		d, e := seg.Dictionary(f)
		if e != nil {
			return fmt.Errorf("Dictionary(%q): %v", f, e)
		}
		od := ODict{F: B(f), Card: d.Cardinality(), Ents: []ODictEnt{}, Has: []OHas{}}
		it := d.AutomatonIterator(nil, nil, nil)
		for {
			ent, e := it.Next()
			if e != nil {
				return fmt.Errorf("dict iter %q: %v", f, e)
			}
			if ent == nil {
				break
			}
			od.Ents = append(od.Ents, ODictEnt{T: B(ent.Term), N: ckInt(ent.Count)})
		}
		// two listings of the same dictionary alive at once - a complete one and a range - advanced in turn:
		// the complete one must enumerate what the sequential listing did, counts included
		{
			full := d.AutomatonIterator(nil, nil, nil)
			part := d.AutomatonIterator(nil, []byte("a"), []byte("c"))
			inter := []ODictEnt{}
			for pe := part; ; {
				ent, e := full.Next()
				if e != nil || ent == nil {
					break
				}
				inter = append(inter, ODictEnt{T: append(B{}, ent.Term...), N: ckInt(ent.Count)})
				if pe != nil {
					if x, e := pe.Next(); e != nil || x == nil {
						pe = nil
					}
				}
			}
			if js(inter) != js(od.Ents) {
				o.Errs = append(o.Errs, OErr{Asp: "dicts", Msg: fmt.Sprintf("a listing of %q interleaved with a second one enumerates %d entries differently from the listing alone", f, len(inter))})
			}
		}
		terms := append([]string(nil), pr.Terms[f]...)
		sort.Strings(terms)
		for _, t := range terms {
			r, e := d.Contains([]byte(t))
			if e != nil {
				return fmt.Errorf("Contains: %v", e)
			}
			od.Has = append(od.Has, OHas{K: B(t), R: r})
			keyBuf = append(keyBuf[:0], t...) // one buffer for the key bytes of consecutive look-ups
			pl, e := d.PostingsList(keyBuf, nil, nil)
			if e != nil {
				return fmt.Errorf("PostingsList(%q,%q): %v", f, t, e)
			}
			n, hits, e := readHits(pl, nil)
			if e != nil {
				return fmt.Errorf("postings iterate (%q,%q): %v", f, t, e)
			}
			o.Posts = append(o.Posts, OPost{F: B(f), T: B(t), N: n, Hits: hits})
			// the same probe through a postings list and an iterator that are reused from probe to
			// probe (across terms and fields), as bleve does; guarded separately (aspect "reuse")
			func() {
				defer func() {
					if r := recover(); r != nil {
						if u, ok := r.(unrepresentable); ok {
							panic(u)
						}
						if os.Getenv("VERIF_DEBUG") != "" {
							fmt.Fprintf(os.Stderr, "panic in reuse: %v\n%s\n", r, debug.Stack())
						}
						o.Errs = append(o.Errs, OErr{Asp: "reuse", Msg: fmt.Sprintf("panic: %v", r)})
						prePL, preIt = nil, nil
					}
				}()
				var e error
				prePL, e = d.PostingsList([]byte(t), nil, prePL)
				if e != nil {
					o.Errs = append(o.Errs, OErr{Asp: "reuse", Msg: e.Error()})
					return
				}
				// the reused iterator is obtained first and read last: in between, an iterator over a missing
				// term's list (fresh objects) must be empty whatever other iterators are alive
				n := ckInt(prePL.Count())
				preIt = prePL.Iterator(true, true, true, preIt)
				miss, e := d.PostingsList([]byte("absent\x01term"), nil, nil)
				if e == nil {
					mn, mhits, me := readHits(miss, nil)
					if me != nil {
						o.Errs = append(o.Errs, OErr{Asp: "reuse", Msg: me.Error()})
					} else {
						o.Posts = append(o.Posts, OPost{F: B(f), T: B("absent\x01term"), N: mn, Hits: mhits, Pre: true})
					}
				}
				hits, e := drain(preIt)
				if e != nil {
					o.Errs = append(o.Errs, OErr{Asp: "reuse", Msg: e.Error()})
					return
				}
				o.Posts = append(o.Posts, OPost{F: B(f), T: B(t), N: n, Hits: hits, Pre: true})
				// ... and once more through the reused objects, reading the first hit only: an iterator that is
				// abandoned half way must leave nothing behind for the next probe (nothing is recorded here)
				if pl2, e := d.PostingsList([]byte(t), nil, prePL); e == nil {
					prePL = pl2
					preIt = prePL.Iterator(true, true, true, preIt)
					preIt.Next()
				}
			}()
		}
		o.Dicts = append(o.Dicts, od)
	}
	return nil
}

// stored fields: every document number below Count, plus two beyond
func observeStored(seg segment.Segment, pr *Probes, o *Obs) error {
	cnt := int(seg.Count())
	for d := 0; d < cnt+2; d++ {
		os := OStored{D: d, ID: B{}, Vals: []OVal{}, Stop: Ints{}}
		id, e := seg.DocID(uint64(d))
		if e != nil {
			return fmt.Errorf("DocID(%d): %v", d, e)
		}
		if id != nil {
			os.ID = append(B{}, id...)
		}
		e = seg.VisitStoredFields(uint64(d), func(field string, typ byte, value []byte, pos []uint64) bool {
			os.Vals = append(os.Vals, OVal{F: B(field), Ty: int(typ), V: append(B{}, value...), AP: ap2ints(pos)})
			return true
		})
		if e != nil {
			return fmt.Errorf("VisitStoredFields(%d): %v", d, e)
		}
		for k := 0; k < pr.Stops; k++ {
			calls := 0
			e = seg.VisitStoredFields(uint64(d), func(field string, typ byte, value []byte, pos []uint64) bool {
				calls++
				return calls <= k
			})
			if e != nil {
				return fmt.Errorf("VisitStoredFields(%d) stop %d: %v", d, k, e)
			}
			os.Stop = append(os.Stop, calls)
		}
		o.Stored = append(o.Stored, os)
	}
	return nil
}

// doc values: per field set a fresh visit state, documents in the given order
func observeDv(dvv segment.DocValueVisitable, pr *Probes, o *Obs) error {
	for _, fs := range pr.DvSets {
		var st segment.DocVisitState
		docs := pr.DvDocs
		if docs == nil {
			for d := 0; d < o.Count; d++ {
				docs = append(docs, d)
			}
		}
		for _, d := range docs {
			od := ODv{D: d, Fs: bs(fs), R: []ODvT{}}
			var e error
			st, e = dvv.VisitDocValues(uint64(d), fs, func(field string, term []byte) {
				od.R = append(od.R, ODvT{F: B(field), T: append(B{}, term...)})
			}, st)
			if e != nil {
				return fmt.Errorf("VisitDocValues(%d): %v", d, e)
			}
			o.Dv = append(o.Dv, od)
		}
	}
	return nil
}

func observeIter(seg segment.Segment, pr *Probes, o *Obs) error {
	for i := range pr.Iter {
		p := &pr.Iter[i]
		d, e := seg.Dictionary(p.F)
		if e != nil {
			return e
		}
		pl, e := d.PostingsList([]byte(p.T), bmOf(p.Ex), nil)
		if e != nil {
			return e
		}
		cls := 0
		if p.Flags[2] {
			cls = 2
		} else if p.Flags[0] || p.Flags[1] {
			cls = 1
		}
		oi := OIter{F: B(p.F), T: B(p.T), Ex: Ints(p.Ex), Cls: cls, N: ckInt(pl.Count()), Calls: []OIterCall{}}
		if oi.Ex == nil {
			oi.Ex = Ints{}
		}
		it := pl.Iterator(p.Flags[0], p.Flags[1], p.Flags[2], nil)
		last := -1
		for _, s := range p.Skips {
			var po segment.Posting
			c := OIterCall{Op: "next", Hit: OHit{Locs: []OLoc{}}}
			if s < 0 {
				po, e = it.Next()
			} else {
				c.Op, c.T = "advance", last+1+s
				po, e = it.Advance(uint64(c.T))
			}
			if e != nil {
				return e
			}
			if po == nil {
				c.Nil = true
				oi.Calls = append(oi.Calls, c)
				break
			}
			h := OHit{D: ckInt(po.Number()), Fr: ckInt(po.Frequency()), Locs: []OLoc{}}
			if nu, ok := po.(interface{ NormUint64() uint64 }); ok {
				h.Nm = ckInt(nu.NormUint64())
			}
			for _, l := range po.Locations() {
				h.Locs = append(h.Locs, OLoc{F: B(l.Field()), P: ckInt(l.Pos()), S: ckInt(l.Start()), E: ckInt(l.End()), AP: ap2ints(l.ArrayPositions())})
			}
			c.Hit = h
			last = h.D
			oi.Calls = append(oi.Calls, c)
		}
		o.Iter = append(o.Iter, oi)
	}
	return nil
}

func observeThes(seg segment.Segment, pr *Probes, o *Obs) error {
	ts, ok := seg.(segment.ThesaurusSegment)
	if !ok || len(pr.Thes) == 0 {
		return nil
	}
	names := make([]string, 0, len(pr.Thes))
	for n := range pr.Thes {
		names = append(names, n)
	}
	sort.Strings(names)
	var preSL segment.SynonymsList
	var preSI segment.SynonymsIterator
	for _, name := range names {
		th, e := ts.Thesaurus(name)
		if e != nil {
			return fmt.Errorf("Thesaurus(%q): %v", name, e)
		}
		ot := OThes{Name: B(name), Terms: []B{}, Has: []OHas{}, Syns: []OSyn{}}
		it := th.AutomatonIterator(nil, nil, nil)
		for {
			ent, e := it.Next()
			if e != nil {
				return fmt.Errorf("thesaurus iter: %v", e)
			}
			if ent == nil {
				break
			}
			ot.Terms = append(ot.Terms, B(ent.Term))
		}
		// two listings of the same thesaurus alive at once - a complete one and a range - advanced in turn:
		// the complete one must enumerate what the sequential listing did
		{
			full := th.AutomatonIterator(nil, nil, nil)
			part := th.AutomatonIterator(nil, []byte("a"), []byte("c"))
			inter := []B{}
			for fe, pe := full, part; fe != nil; {
				ent, e := fe.Next()
				if e != nil || ent == nil {
					break
				}
				inter = append(inter, append(B{}, ent.Term...))
				if pe != nil {
					if x, e := pe.Next(); e != nil || x == nil {
						pe = nil
					}
				}
			}
			if js(inter) != js(ot.Terms) {
				o.Errs = append(o.Errs, OErr{Asp: "thes", Msg: fmt.Sprintf("a listing interleaved with a second one of the same thesaurus enumerates %s, alone %s", js(inter), js(ot.Terms))})
			}
		}
		terms := append([]string(nil), pr.Thes[name]...)
		sort.Strings(terms)
		var scratch []byte // one buffer for the key bytes of consecutive look-ups, as callers that recycle buffers do
		for _, t := range terms {
			scratch = append(scratch[:0], t...)
			r, e := th.Contains(scratch)
			if e != nil {
				return fmt.Errorf("thesaurus Contains: %v", e)
			}
			ot.Has = append(ot.Has, OHas{K: B(t), R: r})
			exs := pr.SynEx
			if len(exs) == 0 {
				exs = [][]int{nil}
			}
			for _, ex := range exs {
				for pass := 0; pass < 2; pass++ {
					// pass 1 reuses one synonyms list and one iterator from probe to probe (across
					// terms, exclusion bitmaps and thesauri)
					var sl segment.SynonymsList
					var e error
					if pass == 0 {
						scratch = append(scratch[:0], t...)
						sl, e = th.SynonymsList(scratch, bmOf(ex), nil)
					} else {
						scratch = append(scratch[:0], t...)
						preSL, e = th.SynonymsList(scratch, bmOf(ex), preSL)
						sl = preSL
					}
					if e != nil {
						return fmt.Errorf("SynonymsList: %v", e)
					}
					os := OSyn{T: B(t), Ex: Ints(ex), R: []OSynPair{}}
					if os.Ex == nil {
						os.Ex = Ints{}
					}
					var sit segment.SynonymsIterator
					if pass == 0 {
						sit = sl.Iterator(nil)
					} else {
						preSI = sl.Iterator(preSI)
						sit = preSI
					}
					for {
						s, e := sit.Next()
						if e != nil {
							return fmt.Errorf("synonyms iter: %v", e)
						}
						if s == nil {
							break
						}
						os.R = append(os.R, OSynPair{S: B(s.Term()), D: int(s.Number())})
					}
					ot.Syns = append(ot.Syns, os)
				}
				// ... and once more through the reused objects, reading the first pair only: a list that is
				// abandoned half way must leave nothing behind for the next probe (nothing is recorded here)
				if sl2, e := th.SynonymsList([]byte(t), nil, preSL); e == nil { // without exclusions: the longest list
					preSL = sl2
					preSI = sl2.Iterator(preSI)
					preSI.Next()
				}
			}
		}
		o.Thes = append(o.Thes, ot)
	}
	return nil
}
