package main

// Frozen corpus (C09 b): files written once by the pinned release together with the inputs that
// produced them; every run opens them with the current code and TLC validates the complete
// observation against the content those inputs define.

import (
	"encoding/json"
	"fmt"
	"io"
	"os"
	"path/filepath"
)

// boundaryBatch: n lean documents in which term "k<c>" occurs in exactly c documents (spread over
// the whole range), for cardinalities around the 1024-hit chunk rules.
func boundaryBatch(l *Life, n int, idBase int, cards []int) []Doc {
	docs := make([]Doc, n)
	for i := range docs {
		id := B(fmt.Sprintf("b%05d", idBase+i))
		docs[i] = Doc{ID: id, Fields: []FieldInst{IDField(id)}}
	}
	for _, c := range cards {
		// every document i with i*c/n != (i+1)*c/n carries the term: exactly c documents
		term := B(fmt.Sprintf("k%d", c))
		for i := 0; i < n; i++ {
			if (i*c)/n != ((i+1)*c)/n {
				d := &docs[i]
				var fi *FieldInst
				for j := range d.Fields {
					if string(d.Fields[j].Name) == "f" {
						fi = &d.Fields[j]
					}
				}
				if fi == nil {
					d.Fields = append(d.Fields, FieldInst{Name: B("f"), DV: true})
					fi = &d.Fields[len(d.Fields)-1]
				}
				fr := 1 + l.r.Intn(3)
				tok := Tok{T: term, Fr: fr}
				for k := 0; k < fr; k++ {
					tok.Locs = append(tok.Locs, Loc{P: 1 + k + len(fi.Toks), S: 10 * k, E: 10*k + 3, AP: Ints{}})
				}
				fi.Toks = append(fi.Toks, tok)
				fi.Len += fr
			}
		}
	}
	for i := range docs {
		docs[i].Canon()
	}
	return docs
}

var boundaryCards = []int{1, 2, 1023, 1024, 1025, 2047, 2048, 2049}

// CorpusGen writes the corpus scenarios into dir (run once, on the pinned release).
func (l *Life) CorpusGen(dir string) {
	save := func(name string) {
		out := filepath.Join(dir, name)
		os.MkdirAll(out, 0o755)
		for k := range l.files {
			src, err := os.Open(l.path(k))
			if err != nil {
				continue
			}
			dst, _ := os.Create(filepath.Join(out, fmt.Sprintf("f%d.zap", k)))
			io.Copy(dst, src)
			src.Close()
			dst.Close()
		}
	}
	// 1 rich documents, persisted, merged, merged again (single-hit entries)
	l.Reset(1024, "corpus-rich")
	p := RichProfile()
	p.MinDocs = 4
	a := l.Build(GenBatch(l.r, &p, 0), 1026)
	b := l.Build(GenBatch(l.r, &p, 100), 2)
	l.Persist(a)
	l.Persist(b)
	k, _ := l.Merge([]*hseg{a, b}, []Drop{{Nil: true, Ds: Ints{}}, randDrop(l.r, b.ndocs)}, 1026)
	m := l.Open(k)
	k2, _ := l.Merge([]*hseg{m}, []Drop{{Ds: Ints{0}}}, 1025)
	_ = k2
	save("rich")
	// 2 synonyms
	l.Reset(1024, "corpus-syn")
	sp := SynProfile()
	sp.MinDocs = 5
	a = l.Build(GenBatch(l.r, &sp, 0), 1026)
	b = l.Build(GenBatch(l.r, &sp, 100), 1026)
	l.Persist(a)
	l.Merge([]*hseg{a, b}, []Drop{randDrop(l.r, a.ndocs), {Nil: true, Ds: Ints{}}}, 1026)
	save("syn")
	// 3 boundary cardinalities under the three chunk-mode families, multi-chunk doc values
	l.Reset(1024, "corpus-boundary")
	l.light = true
	var hs []*hseg
	for i, mode := range []int{1026, 1025, 1024} {
		h := l.Build(boundaryBatch(l, 2200, 10000*i, boundaryCards), mode)
		l.Persist(h)
		hs = append(hs, h)
	}
	// a merge whose per-term cardinalities land on the boundaries again
	l.Merge([]*hseg{hs[0], hs[1]}, []Drop{{Nil: true, Ds: Ints{}}, {Ds: func() Ints {
		ds := Ints{}
		for d := 0; d < 2200; d++ {
			ds = append(ds, d)
		}
		return ds
	}()}}, 1026)
	save("boundary")
}

type corpusEv struct {
	Ev    string `json:"ev"`
	LCM   int    `json:"lcm"`
	Sid   int    `json:"sid"`
	File  int    `json:"file"`
	Mode  int    `json:"mode"`
	Batch []Doc  `json:"batch"`
	Ins   []int  `json:"ins"`
	Drops []Drop `json:"drops"`
}

// CorpusOpen re-emits the frozen inputs of a scenario and then opens every frozen file with the
// current code, logging the complete observation.
func (l *Life) CorpusOpen(scenario string) int {
	unis := map[int]*universe{}
	ndocs := map[int]int{}
	fileU := map[int]*universe{}
	fileN := map[int]int{}
	var order []int
	maxSid := -1
	forEachLine(filepath.Join(scenario, "inputs.ndjson"), func(line []byte) {
		line = append([]byte{}, line...)
		var e corpusEv
		if err := json.Unmarshal(line, &e); err != nil {
			fatal2("corpus: %v", err)
		}
		l.tr.w.Write(line)
		l.tr.w.WriteString("\n")
		l.tr.N++
		switch e.Ev {
		case "reset":
			l.light = true
		case "fbuild":
			for i := range e.Batch {
				e.Batch[i].Canon()
			}
			unis[e.Sid] = universeOf(e.Batch)
			ndocs[e.Sid] = len(e.Batch)
		case "fopen":
			unis[e.Sid] = fileU[e.File]
			ndocs[e.Sid] = fileN[e.File]
		case "fpersist":
			fileU[e.File] = unis[e.Sid]
			fileN[e.File] = ndocs[e.Sid]
			order = append(order, e.File)
		case "fmerge":
			u := newUniverse()
			n := 0
			for i, s := range e.Ins {
				u.merge(unis[s])
				n += ndocs[s] - len(e.Drops[i].Ds)
			}
			fileU[e.File] = u
			fileN[e.File] = n
			order = append(order, e.File)
		}
		if e.Sid > maxSid {
			maxSid = e.Sid
		}
	})
	l.nextSid = maxSid + 1
	for _, k := range order {
		src := filepath.Join(scenario, fmt.Sprintf("f%d.zap", k))
		dst := l.path(k)
		data, err := os.ReadFile(src)
		if err != nil {
			fatal2("corpus file missing: %v", err)
		}
		os.WriteFile(dst, data, 0o644)
		l.files[k] = fileU[k]
		l.fileN[k] = fileN[k]
		if h := l.Open(k); h != nil {
			l.Close(h)
		}
	}
	return len(order)
}

// LeanCrossScenario: merges in which the merged cardinality of a term crosses a multiple of 1024
// only through deletions, with the term missing from other inputs of the merge (so that every
// per-input quantity of the merge - deletion bitmap, renumbering, dictionary - must be taken from
// the right input), under the cardinality-dependent chunk modes.
func (l *Life) LeanCrossScenario(tag string) {
	l.Reset(100, tag)
	l.light = true
	n := 1900 + l.r.Intn(300)
	gaps := func(b []Doc) []Doc {
		// a doc-value field that is present in some doc-value chunks only (whole chunks without it follow
		// populated ones): documents [0,150) and [400,450) with a chunk size of 100
		for i := range b {
			if i < 150 || (i >= 400 && i < 450) {
				b[i].Fields = append(b[i].Fields, FieldInst{Name: B("h"), DV: true, Len: 1, Toks: []Tok{{T: B(fmt.Sprintf("h%d", i%7)), Fr: 1}}})
				b[i].Canon()
			}
		}
		return b
	}
	// a field whose first (and only) dictionary key is the empty term, in more than 1024 documents of the
	// second input and a few hundred of the first: the per-term state of the merger (cardinality, chunk size)
	// has to be set up for it although "the previous term" is still nil-or-empty
	empties := func(b []Doc, keep func(i int) bool) []Doc {
		for i := range b {
			if keep(i) {
				b[i].Fields = append(b[i].Fields, FieldInst{Name: B("g"), Len: 1, Toks: []Tok{{T: B{}, Fr: 1, Locs: []Loc{{P: 1, S: 0, E: 1, AP: Ints{}}}}}})
				b[i].Canon()
			}
		}
		return b
	}
	a := l.Build(empties(gaps(boundaryBatch(l, n, 0, []int{700 + l.r.Intn(50), 3})), func(i int) bool { return i%3 == 0 }), 1026)
	b := l.Build(empties(gaps(boundaryBatch(l, n, 10000, []int{1027 + l.r.Intn(8), 2052 + l.r.Intn(8), 1024, 40})), func(i int) bool { return i%5 != 0 }), 1026)
	c := l.Build(boundaryBatch(l, n/2, 20000, []int{1}), 1025)
	if a == nil || b == nil || c == nil {
		return
	}
	half := func(n int) Drop {
		ds := Ints{}
		for d := 0; d < n; d++ {
			if l.r.Intn(2) == 0 {
				ds = append(ds, d)
			}
		}
		return Drop{Ds: ds}
	}
	few := func(n int) Drop {
		ds := Ints{}
		for d := 0; d < n; d++ {
			if l.r.Intn(40) == 0 {
				ds = append(ds, d)
			}
		}
		return Drop{Ds: ds}
	}
	none := Drop{Nil: true, Ds: Ints{}}
	plans := [][]Drop{{half(a.ndocs), none}, {none, few(b.ndocs)}, {few(a.ndocs), half(b.ndocs)}}
	for i, p := range plans {
		ins := []*hseg{a, b}
		mode := []int{1026, 1025, 1026}[i]
		if k, ok := l.Merge(ins, p, mode); ok {
			if h := l.Open(k); h != nil {
				l.Close(h)
			}
		}
	}
	// three inputs: the term of the middle input is missing from the first and the last
	if k, ok := l.Merge([]*hseg{c, b, a}, []Drop{half(c.ndocs), none, half(a.ndocs)}, 1026); ok {
		if h := l.Open(k); h != nil {
			l.Close(h)
		}
	}
	for _, h := range l.live() {
		l.Close(h)
	}
}
