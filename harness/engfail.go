//go:build vectors

package main

// C19: the n-th call of every engine operation that the fault-free build / merge performs is made
// to fail; the operation must report an error, leave no file and release every native index.

import (
	"fmt"
	"os"
	"time"

	faiss "github.com/blevesearch/go-faiss"
)

type EvEngFail struct {
	Ev     string `json:"ev"`
	Kind   string `json:"kind"`
	Op     string `json:"op"`
	N      int    `json:"n"`
	Err    bool   `json:"err"`
	Msg    string `json:"msg"`
	Exists bool   `json:"exists"`
	Leaked int    `json:"leaked"`
	Class  string `json:"class"`
}

func settleLive(want int) int {
	deadline := time.Now().Add(3 * time.Second)
	for {
		s := faiss.VerifStats()
		if s.Live <= want || time.Now().After(deadline) {
			return s.Live
		}
		time.Sleep(50 * time.Microsecond)
	}
}

func opCounts(log []string) ([]string, map[string]int) {
	cnt := map[string]int{}
	order := []string{}
	for _, op := range log {
		if op == "Search" {
			continue
		}
		if cnt[op] == 0 {
			order = append(order, op)
		}
		cnt[op]++
	}
	return order, cnt
}

func vecBatch(l *Life, n, base int, field string, dims int) []Doc {
	docs := make([]Doc, n)
	for i := range docs {
		id := B(fmt.Sprintf("v%05d", base+i))
		vec := Ints{}
		for c := 0; c < dims; c++ {
			vec = append(vec, l.r.Intn(41)-20)
		}
		docs[i] = Doc{ID: id, Fields: []FieldInst{IDField(id), {Name: B(field), Kind: KindVec, Vec: vec, Dims: dims}}}
		docs[i].Canon()
	}
	return docs
}

// EngineFailures runs the failure plans of one scenario class ("flat" or "ivf").
func (l *Life) EngineFailures(class string, tag string) {
	l.Reset(1024, tag)
	l.light = true
	var batches [][]Doc
	if class == "ivf" {
		batches = [][]Doc{vecBatch(l, 620, 0, "v2", 2), vecBatch(l, 560, 1000, "v2", 2)}
	} else if class == "chain" {
		// the first input keeps the field's name but loses all its vectors to deletions; two inputs with live
		// vectors follow (the merger reads one native index per input that still has vectors)
		batches = [][]Doc{vecBatch(l, 3, 0, "v2", 2), vecBatch(l, 4, 100, "v2", 2), vecBatch(l, 5, 200, "v2", 2)}
	} else if class == "big" {
		// a merge of several thousand vectors: whatever the merger does piecewise (batched adds, batched
		// reconstruction) makes more than one engine call, and each of them is failed in turn
		batches = [][]Doc{vecBatch(l, 2600, 0, "v2", 2), vecBatch(l, 2650, 5000, "v2", 2)}
	} else {
		p := VecProfile()
		p.MinDocs = 3
		batches = [][]Doc{GenBatch(l.r, &p, 0), GenBatch(l.r, &p, 100), GenBatch(l.r, &p, 200)}
	}
	// ---- builds
	for bi, b := range batches {
		if class == "big" || class == "chain" || (class == "ivf" && bi > 0) {
			break
		}
		if class == "ivf" {
			b = append(append([]Doc{}, batches[0]...), batches[1]...) // one build above the clustered threshold
		}
		settleLive(0)
		faiss.VerifReset()
		var newLog []string
		l.afterNew = func() { newLog = faiss.VerifCallLog() }
		h := l.Build(b, 1026) // fault-free: logged and validated as usual
		l.afterNew = nil
		order, cnt := opCounts(newLog)
		if h != nil {
			l.Close(h)
		}
		for _, op := range order {
			for n := 1; n <= cnt[op]; n++ {
				base := settleLive(0)
				faiss.VerifReset()
				faiss.VerifFailNth(op, n)
				l.injected = true
				nsegs := len(l.live())
				l.afterNew = func() { faiss.VerifReset() } // the plan concerns the build, not the queries after it
				hb := l.Build(b, 1026)                     // a build that succeeds is logged as a build (TLC validates its content)
				l.afterNew = nil
				l.injected = false
				faiss.VerifReset()
				ev := EvEngFail{Ev: "engfail", Kind: "build", Op: op, N: n, Class: class, Err: hb == nil}
				if hb != nil {
					l.Close(hb)
				}
				_ = nsegs
				ev.Leaked = settleLive(base) - base
				l.tr.Emit(ev)
			}
		}
	}
	// ---- merges
	var ins []*hseg
	for _, b := range batches {
		if h := l.Build(b, 1026); h != nil {
			ins = append(ins, h)
		}
	}
	if len(ins) < 2 {
		return
	}
	drops := make([]Drop, len(ins))
	for i := range drops {
		drops[i] = Drop{Nil: true, Ds: Ints{}}
		if i == 0 && class == "chain" {
			all := Ints{}
			for d := 0; d < ins[i].ndocs; d++ {
				all = append(all, d)
			}
			drops[i] = Drop{Ds: all}
		}
		if i > 0 && class == "flat" {
			drops[i] = randDrop(l.r, ins[i].ndocs)
		}
	}
	settleLive(0)
	faiss.VerifReset()
	k, ok := l.Merge(ins, drops, 1026)
	order, cnt := opCounts(faiss.VerifCallLog())
	if ok {
		if h := l.Open(k); h != nil {
			l.Close(h)
		}
	}
	for _, op := range order {
		for n := 1; n <= cnt[op]; n++ {
			base := settleLive(0)
			faiss.VerifReset()
			faiss.VerifFailNth(op, n)
			l.injected = true
			k, ok := l.Merge(ins, drops, 1026) // logged as a merge event as well (error => file-left is checked there)
			l.injected = false
			faiss.VerifReset()
			ev := EvEngFail{Ev: "engfail", Kind: "merge", Op: op, N: n, Class: class, Err: !ok}
			if _, e := os.Stat(l.path(k)); e == nil {
				ev.Exists = true
			}
			if ok {
				// no error was reported: the result must then be complete (validated by TLC on re-open)
				if h := l.Open(k); h != nil {
					l.Close(h)
				}
			}
			ev.Leaked = settleLive(base) - base
			l.tr.Emit(ev)
			os.Remove(l.path(k))
		}
	}
	for _, h := range l.live() {
		l.Close(h)
	}
}
