package main

// Vector observation types (shared by both build tags).

type VecProbe struct {
	Field  string
	Q      []int
	K      int
	Ex     []int // nil = no exclusion bitmap
	Filter bool
	Elig   []int
}

type OVecHit struct {
	D int `json:"d"`
	// score as exact integer (inputs are integer vectors): L2 squared distance or dot product;
	// cosine scores are reported as [dot, |q|^2, |v|^2]-free float bits compared in Go only.
	S int `json:"s"`
}

type OVec struct {
	F      B         `json:"f"`
	Q      Ints      `json:"q"`
	K      int       `json:"k"`
	Ex     Ints      `json:"ex"`
	Filter bool      `json:"filter"`
	Elig   Ints      `json:"elig"`
	R      []OVecHit `json:"r"`
	ExNil  bool      `json:"exnil"`
}

type OVStat struct {
	F B   `json:"f"`
	N int `json:"n"`
}
