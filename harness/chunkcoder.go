package main

// Replay of ChunkCoder.tla scripts on the real chunked coders and their decoders (verif hooks
// VerifIntCoderRun / VerifContentCoderRun); equality with the read-back TLC computed, nothing else.

import (
	"encoding/json"
	"fmt"

	zap "github.com/blevesearch/zapx/v16"
)

type ccTerm struct {
	CS   int     `json:"cs"`
	Docs []int   `json:"docs"`
	Exp  [][]int `json:"exp"`
}

type ccWalk struct {
	Kind   string   `json:"kind"`
	MaxDoc int      `json:"maxdoc"`
	First  int      `json:"first"`
	Terms  []ccTerm `json:"terms"`
}

type ccDiff struct {
	Walk ccWalk `json:"walk"`
	Term int    `json:"term"`
	What string `json:"what"`
	Got  string `json:"got"`
	Want string `json:"want"`
}

// the model's ValsOf
func ccVals(d int) []uint64 {
	if d%2 == 0 {
		return []uint64{uint64(10*d + 1)}
	}
	return []uint64{uint64(10*d + 1), uint64(10*d + 2)}
}

func norm(x [][]uint64) [][]int {
	r := make([][]int, len(x))
	for i := range x {
		r[i] = []int{}
		for _, v := range x[i] {
			r[i] = append(r[i], int(v))
		}
	}
	return r
}

func normExp(x [][]int) [][]int {
	r := make([][]int, len(x))
	for i := range x {
		r[i] = []int{}
		r[i] = append(r[i], x[i]...)
	}
	return r
}

func runChunkCoder(walksPath, outPath string) {
	var diffs []ccDiff
	nw, nterms := 0, 0
	forEachLine(walksPath, func(line []byte) {
		var w ccWalk
		if err := json.Unmarshal(line, &w); err != nil {
			fatal2("walk: %v", err)
		}
		if len(diffs) >= 50 {
			return
		}
		nw++
		mk := func(t ccTerm) zap.VerifCoderTerm {
			vt := zap.VerifCoderTerm{ChunkSize: uint64(t.CS)}
			for _, d := range t.Docs {
				vt.Docs = append(vt.Docs, uint64(d))
				vt.Vals = append(vt.Vals, ccVals(d))
			}
			return vt
		}
		if w.Kind == "int" {
			var ts []zap.VerifCoderTerm
			for _, t := range w.Terms {
				ts = append(ts, mk(t))
			}
			nterms += len(ts)
			got, err := zap.VerifIntCoderRun(uint64(w.First), uint64(w.MaxDoc), ts)
			if err != nil {
				diffs = append(diffs, ccDiff{Walk: w, Term: -1, What: "int coder script failed", Got: err.Error()})
				return
			}
			for i := range w.Terms {
				if js(norm(got[i])) != js(normExp(w.Terms[i].Exp)) {
					diffs = append(diffs, ccDiff{Walk: w, Term: i, What: "int coder read-back", Got: js(norm(got[i])), Want: js(normExp(w.Terms[i].Exp))})
					return
				}
			}
			return
		}
		for i, t := range w.Terms {
			for _, progressive := range []bool{false, true} {
				nterms++
				got, err := zap.VerifContentCoderRun(uint64(w.MaxDoc), progressive, mk(t))
				what := fmt.Sprintf("content coder (progressive write %v)", progressive)
				if err != nil {
					diffs = append(diffs, ccDiff{Walk: w, Term: i, What: what + " failed", Got: err.Error()})
					return
				}
				if js(norm(got)) != js(normExp(t.Exp)) {
					diffs = append(diffs, ccDiff{Walk: w, Term: i, What: what + " read-back", Got: js(norm(got)), Want: js(normExp(t.Exp))})
					return
				}
			}
		}
	})
	tr := NewTracer(outPath)
	for _, d := range diffs {
		tr.Emit(d)
	}
	tr.Close()
	fmt.Printf("walks=%d terms=%d diffs=%d\n", nw, nterms, len(diffs))
}
