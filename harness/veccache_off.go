//go:build !(vectors && verif)

package main

func runVecCache(walksPath, tablesPath, dir, outPath string, stress int) {
	fatal2("veccache needs the build tags verif,vectors")
}
