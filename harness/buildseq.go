package main

// C10: build histories in one process (pooled builder residues) and concurrent builds.

import (
	"fmt"
	"math/rand"
	"runtime"
	"runtime/debug"
	"sync"

	segment "github.com/blevesearch/scorch_segment_api/v2"
	zap "github.com/blevesearch/zapx/v16"
)

type EvNote struct {
	Ev   string         `json:"ev"`
	Kind string         `json:"kind"`
	Data map[string]int `json:"data"`
}

func (l *Life) noteResidue() {
	l.tr.Emit(EvNote{Ev: "note", Kind: "residue", Data: builderResidue()})
}

func emptyPools() {
	runtime.GC()
	runtime.GC()
}

func bigProfile() GenProfile {
	p := RichProfile()
	p.MinDocs, p.MaxDocs = 15, 40
	p.MaxFieldsPerDoc, p.MaxToksPerField = 8, 8
	return p
}

func smallProfile() GenProfile {
	p := RichProfile()
	p.MinDocs, p.MaxDocs = 1, 2
	p.MaxFieldsPerDoc, p.MaxToksPerField = 2, 2
	p.Composite = false
	return p
}

// shapeBatch generates a batch of the named shape.
func shapeBatch(r *rand.Rand, shape string, idBase int) []Doc {
	switch shape {
	case "empty":
		return []Doc{}
	case "big":
		p := bigProfile()
		return GenBatch(r, &p, idBase)
	case "small":
		p := smallProfile()
		return GenBatch(r, &p, idBase)
	case "syn":
		p := SynProfile()
		p.MinDocs = 2
		return GenBatch(r, &p, idBase)
	case "stored":
		p := RichProfile()
		p.StoredHeavy = true
		return GenBatch(r, &p, idBase)
	case "reject":
		p := RichProfile()
		p.MinDocs, p.MaxDocs = 2, 6
		p.DupIDs = false
		b := GenBatch(r, &p, idBase)
		// the validator rejects one ordinary field of the last document (after the builder was filled)
		d := &b[len(b)-1]
		d.Fields = append(d.Fields, FieldInst{Name: B("rej"), Stored: true, Value: B("x"), Len: 1, Toks: []Tok{{T: B("x"), Fr: 1}}, Reject: true})
		d.Canon()
		return b
	}
	p := MergeyProfile()
	return GenBatch(r, &p, idBase)
}

var seqShapes = []string{"big", "small", "empty", "syn", "mergey", "reject", "stored", "small", "big"}

// BuildSeqScenario builds a random sequence of batch shapes in this process with the garbage
// collector parked, so that every build inherits the pooled builder of the previous successful one.
func (l *Life) BuildSeqScenario(n int, tag string) {
	l.Reset(1024, tag)
	emptyPools()
	old := debug.SetGCPercent(-1)
	defer debug.SetGCPercent(old)
	idBase := 0
	modes := []int{1026, 1026, 2, 1025}
	for i := 0; i < n; i++ {
		shape := seqShapes[l.r.Intn(len(seqShapes))]
		if i == 0 && l.r.Intn(2) == 0 {
			shape = "big"
		}
		b := shapeBatch(l.r, shape, idBase)
		idBase += len(b)
		l.noteResidue()
		l.Build(b, modes[l.r.Intn(len(modes))])
		if l.r.Intn(8) == 0 {
			l.tr.Emit(EvNote{Ev: "note", Kind: "gc", Data: map[string]int{}})
			emptyPools()
		}
	}
	for _, h := range l.live() {
		l.Close(h)
	}
}

// BuildStress builds batches concurrently from g goroutines; every result is logged and later
// validated against its own batch.
func (l *Life) BuildStress(g, k int, tag string) {
	l.Reset(1024, tag)
	zap.DefaultChunkMode = 1026
	type item struct {
		batch []Doc
		pr    *Probes
		uni   *universe
	}
	work := make([][]item, g)
	idBase := 0
	for i := range work {
		for j := 0; j < k; j++ {
			shape := seqShapes[l.r.Intn(len(seqShapes))]
			b := shapeBatch(l.r, shape, idBase)
			idBase += len(b)
			u := universeOf(b)
			work[i] = append(work[i], item{b, probesFor(u, l.r, len(b), true), u})
		}
	}
	var mu sync.Mutex
	var wg sync.WaitGroup
	plugin := &zap.ZapPlugin{}
	for i := range work {
		wg.Add(1)
		go func(items []item) {
			debug.SetPanicOnFault(true)
			defer wg.Done()
			for _, it := range items {
				var seg segment.Segment
				var size uint64
				var err error
				pan := ""
				func() {
					defer func() {
						if x := recover(); x != nil {
							pan = fmt.Sprint(x)
						}
					}()
					seg, size, err = plugin.New(MakeDocs(it.batch))
				}()
				if err != nil || pan != "" {
					mu.Lock()
					l.tr.Emit(EvBuildFail{Ev: "buildfail", Mode: 1026, Batch: it.batch, Rejected: rejecting(it.batch), Panic: pan})
					mu.Unlock()
					continue
				}
				obs := Observe(seg, it.pr)
				mu.Lock()
				sid := l.nextSid
				l.nextSid++
				l.tr.Emit(EvBuild{Ev: "build", Sid: sid, Mode: 1026, Batch: it.batch, Size: int(size), Obs: obs})
				mu.Unlock()
				seg.Close()
			}
		}(work[i])
	}
	wg.Wait()
	_ = fmt.Sprint
}
