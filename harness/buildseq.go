package main

// C10: build histories in one process (pooled builder residues) and concurrent builds.

import (
	"bytes"
	"fmt"
	"os"

	"github.com/RoaringBitmap/roaring/v2"
	"math/rand"
	"runtime"
	"runtime/debug"
	"sync"

	segment "github.com/blevesearch/scorch_segment_api/v2"
	zap "github.com/blevesearch/zapx/v16"
)

type EvNote struct {
	Ev   string         `json:"ev"`
	Kind string         `json:"kind"`
	Data map[string]int `json:"data"`
}

func (l *Life) noteResidue() {
	l.tr.Emit(EvNote{Ev: "note", Kind: "residue", Data: builderResidue()})
}

func emptyPools() {
	runtime.GC()
	runtime.GC()
}

func bigProfile() GenProfile {
	p := RichProfile()
	p.MinDocs, p.MaxDocs = 15, 40
	p.MaxFieldsPerDoc, p.MaxToksPerField = 8, 8
	return p
}

func smallProfile() GenProfile {
	p := RichProfile()
	p.MinDocs, p.MaxDocs = 1, 2
	p.MaxFieldsPerDoc, p.MaxToksPerField = 2, 2
	p.Composite = false
	return p
}

// shapeBatch generates a batch of the named shape.
func shapeBatch(r *rand.Rand, shape string, idBase int) []Doc {
	switch shape {
	case "empty":
		return []Doc{}
	case "big":
		p := bigProfile()
		return GenBatch(r, &p, idBase)
	case "small":
		p := smallProfile()
		return GenBatch(r, &p, idBase)
	case "syn":
		p := SynProfile()
		p.MinDocs = 2
		return GenBatch(r, &p, idBase)
	case "stored":
		p := RichProfile()
		p.StoredHeavy = true
		return GenBatch(r, &p, idBase)
	case "reject":
		p := RichProfile()
		p.MinDocs, p.MaxDocs = 2, 6
		p.DupIDs = false
		b := GenBatch(r, &p, idBase)
		// the validator rejects one ordinary field of the last document (after the builder was filled)
		d := &b[len(b)-1]
		d.Fields = append(d.Fields, FieldInst{Name: B("rej"), Stored: true, Value: B("x"), Len: 1, Toks: []Tok{{T: B("x"), Fr: 1}}, Reject: true})
		d.Canon()
		return b
	}
	p := MergeyProfile()
	return GenBatch(r, &p, idBase)
}

var seqShapes = []string{"big", "small", "empty", "syn", "mergey", "reject", "stored", "small", "big"}

// EvSameBytes: the batch of segment sid, built again alone on emptied pools, has the same image or not.
type EvSameBytes struct {
	Ev   string `json:"ev"`
	Sid  int    `json:"sid"`
	Same bool   `json:"same"`
	FLen int    `json:"flen"`
	RLen int    `json:"rlen"`
}

func hasKind(batch []Doc, kind int) bool {
	for i := range batch {
		for j := range batch[i].Fields {
			if batch[i].Fields[j].Kind == kind {
				return true
			}
		}
	}
	return false
}

func imageOf(seg segment.Segment) []byte {
	var buf bytes.Buffer
	defer func() { recover() }()
	if sb, ok := seg.(*zap.SegmentBase); ok {
		sb.WriteTo(&buf)
	}
	return buf.Bytes()
}

// hugeBatch: more than 1024 documents with a doc-value field (several doc-value and posting chunks).
func hugeBatch(r *rand.Rand, idBase int) []Doc {
	n := 1030 + r.Intn(60)
	docs := make([]Doc, n)
	for i := range docs {
		id := B(fmt.Sprintf("h%05d", idBase+i))
		f := FieldInst{Name: B("a"), Typ: int('t'), DV: true, Len: 1, Toks: []Tok{{T: B([]string{"x", "y", "b"}[i%3]), Fr: 1, Locs: []Loc{}}}}
		docs[i] = Doc{ID: id, Fields: []FieldInst{IDField(id), f}}
		docs[i].Canon()
	}
	return docs
}

// BuildSeqScenario builds a random sequence of batch shapes in this process with the garbage
// collector parked, so that every build inherits the pooled builder of the previous successful one;
// merges - completed and cancelled at a random poll - run in between (they share process-wide state
// with the builds).  Afterwards every batch is built once more alone on emptied pools: the image of
// a segment is determined by its batch and chunk mode, so the two images have the same size (their bytes may differ in the order of the
// section entries of a field's table, which follows a map iteration).
func (l *Life) BuildSeqScenario(n int, tag string) {
	l.Reset(1024, tag)
	emptyPools()
	old := debug.SetGCPercent(-1)
	defer debug.SetGCPercent(old)
	idBase := 0
	modes := []int{1026, 1026, 2, 1025}
	type built struct {
		sid   int
		batch []Doc
		mode  int
		img   []byte
	}
	var done []built
	var lastTwo []*hseg
	hugeAt := -1
	if l.r.Intn(3) == 0 {
		hugeAt = l.r.Intn(n)
	}
	for i := 0; i < n; i++ {
		shape := seqShapes[l.r.Intn(len(seqShapes))]
		if i == 0 && l.r.Intn(2) == 0 {
			shape = "big"
		}
		b := shapeBatch(l.r, shape, idBase)
		if i == hugeAt {
			b = hugeBatch(l.r, idBase)
			l.light = true
		}
		idBase += len(b)
		l.noteResidue()
		mode := modes[l.r.Intn(len(modes))]
		if h := l.Build(b, mode); h != nil {
			done = append(done, built{h.sid, b, mode, imageOf(h.seg)})
			lastTwo = append(lastTwo, h)
			if len(lastTwo) > 2 {
				lastTwo = lastTwo[1:]
			}
		}
		l.light = false
		if len(lastTwo) == 2 && l.r.Intn(3) == 0 {
			// a merge of the two most recent segments, cancelled at a random poll (or not at all)
			stopAt, polls := l.r.Intn(12), 0
			ch := make(chan struct{})
			closed := false
			setPollHook(func() {
				if polls == stopAt && !closed {
					close(ch)
					closed = true
				}
				polls++
			})
			path := l.path(l.nextFil)
			l.nextFil++
			os.Remove(path)
			func() {
				defer func() { recover() }()
				l.plugin.Merge([]segment.Segment{lastTwo[0].seg, lastTwo[1].seg}, []*roaring.Bitmap{nil, nil}, path, ch, nil)
			}()
			setPollHook(nil)
			os.Remove(path)
			l.tr.Emit(EvNote{Ev: "note", Kind: "merge-between-builds", Data: map[string]int{"polls": polls, "cancelled_at": stopAt}})
		}
		if l.r.Intn(8) == 0 {
			l.tr.Emit(EvNote{Ev: "note", Kind: "gc", Data: map[string]int{}})
			emptyPools()
		}
	}
	for _, d := range done {
		if hasKind(d.batch, KindSyn) || hasKind(d.batch, KindVec) {
			continue // synonym ids (and vector ids) are handed out in map order / at random: the size varies by itself
		}
		emptyPools()
		zap.DefaultChunkMode = uint32(d.mode)
		var again segment.Segment
		func() {
			defer func() { recover() }()
			again, _, _ = l.plugin.New(MakeDocs(d.batch))
		}()
		ev := EvSameBytes{Ev: "samebytes", Sid: d.sid, FLen: len(d.img)}
		if again != nil {
			img := imageOf(again)
			ev.RLen = len(img)
			// the order of the section entries in a field's table follows a map iteration, so the bytes may differ
			// in those entries; the size of the image may not
			ev.Same = len(img) == len(d.img)
			again.Close()
		}
		l.tr.Emit(ev)
	}
	for _, h := range l.live() {
		l.Close(h)
	}
}

// BuildStress builds batches concurrently from g goroutines; every result is logged and later
// validated against its own batch.
func (l *Life) BuildStress(g, k int, tag string) {
	l.Reset(1024, tag)
	zap.DefaultChunkMode = 1026
	type item struct {
		batch []Doc
		pr    *Probes
		uni   *universe
	}
	work := make([][]item, g)
	idBase := 0
	for i := range work {
		for j := 0; j < k; j++ {
			shape := seqShapes[l.r.Intn(len(seqShapes))]
			b := shapeBatch(l.r, shape, idBase)
			idBase += len(b)
			u := universeOf(b)
			work[i] = append(work[i], item{b, probesFor(u, l.r, len(b), true), u})
		}
	}
	var mu sync.Mutex
	var wg sync.WaitGroup
	plugin := &zap.ZapPlugin{}
	for i := range work {
		wg.Add(1)
		go func(items []item) {
			debug.SetPanicOnFault(true)
			defer wg.Done()
			for _, it := range items {
				var seg segment.Segment
				var size uint64
				var err error
				pan := ""
				func() {
					defer func() {
						if x := recover(); x != nil {
							pan = fmt.Sprint(x)
						}
					}()
					seg, size, err = plugin.New(MakeDocs(it.batch))
				}()
				if err != nil || pan != "" {
					mu.Lock()
					l.tr.Emit(EvBuildFail{Ev: "buildfail", Mode: 1026, Batch: it.batch, Rejected: rejecting(it.batch), Panic: pan})
					mu.Unlock()
					continue
				}
				obs := Observe(seg, it.pr)
				mu.Lock()
				sid := l.nextSid
				l.nextSid++
				l.tr.Emit(EvBuild{Ev: "build", Sid: sid, Mode: 1026, Batch: it.batch, Size: int(size), Obs: obs})
				mu.Unlock()
				seg.Close()
			}
		}(work[i])
	}
	wg.Wait()
	_ = fmt.Sprint
}
