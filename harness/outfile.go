package main

// C17 / C18: Persist, WriteTo and Merge under injected write faults and
// cancellations.  The step sequence of the fault-free run (writes reported by
// the merge's statistics callback, polls counted by the verif hook) is logged
// as the operation's program; every injected plan is logged with its outcome
// and validated by TLC against OutFile (TraceOut.tla).

import (
	"bytes"
	"encoding/binary"
	"fmt"
	"hash/crc32"
	"io"
	"math/rand"
	"os"
	"os/signal"
	"path/filepath"
	"sort"
	"syscall"
	"time"

	"github.com/RoaringBitmap/roaring/v2"
	segment "github.com/blevesearch/scorch_segment_api/v2"
	zap "github.com/blevesearch/zapx/v16"
)

type ofStep struct {
	K   string `json:"k"`
	N   int    `json:"n"`
	Chk bool   `json:"chk"`
}

type EvOutProg struct {
	Ev    string   `json:"ev"`
	ID    int      `json:"id"`
	Kind  string   `json:"kind"`
	Cap   int      `json:"cap"`
	Prog  []ofStep `json:"prog"`
	Total int      `json:"total"`
	Polls int      `json:"polls"`
}

type EvOut struct {
	Ev       string   `json:"ev"`
	ID       int      `json:"id"`
	Kind     string   `json:"kind"`
	Fault    int      `json:"fault"`
	Cancel   int      `json:"cancel"`
	CancelW  int      `json:"cancelw"`
	EFail    int      `json:"efail"`
	Res      string   `json:"res"`
	Exists   bool     `json:"exists"`
	Complete bool     `json:"complete"`
	Err      string   `json:"err"`
	Prog     []ofStep `json:"prog"` // the steps of this very run (used instead of the recorded program when not empty)
}

// withFileLimit runs f while the process cannot grow any file beyond limit bytes: the write that
// crosses the limit is cut short and fails with EFBIG (DESIGN 3.6).  Process-wide: the harness
// writes nothing itself inside the window.
func withFileLimit(limit int, f func()) {
	var old syscall.Rlimit
	if err := syscall.Getrlimit(syscall.RLIMIT_FSIZE, &old); err != nil {
		fatal2("getrlimit: %v", err)
	}
	signal.Ignore(syscall.SIGXFSZ)
	nl := syscall.Rlimit{Cur: uint64(limit), Max: old.Max}
	if err := syscall.Setrlimit(syscall.RLIMIT_FSIZE, &nl); err != nil {
		fatal2("setrlimit: %v", err)
	}
	defer func() {
		if err := syscall.Setrlimit(syscall.RLIMIT_FSIZE, &old); err != nil {
			fatal2("restore rlimit: %v", err)
		}
	}()
	f()
}

type failingWriter struct {
	buf   bytes.Buffer
	limit int // -1 = none
}

func (w *failingWriter) Write(p []byte) (int, error) {
	if w.limit < 0 || w.buf.Len()+len(p) <= w.limit {
		return w.buf.Write(p)
	}
	n := w.limit - w.buf.Len()
	if n < 0 {
		n = 0
	}
	w.buf.Write(p[:n])
	return n, fmt.Errorf("injected write fault at offset %d", w.limit)
}

type recReporter struct{ f func(n uint64) }

func (r *recReporter) ReportBytesWritten(n uint64) { r.f(n) }

func withProg(e EvOut, p []ofStep) EvOut {
	e.Prog = append([]ofStep{}, p...)
	return e
}

func classify(err error) string {
	switch {
	case err == nil:
		return "ok"
	case err == segment.ErrClosed:
		return "closed"
	default:
		return "io"
	}
}

// completeFile: the file has the expected length, a valid CRC-32 trailer, and re-opens with count docs.
func completeFile(path string, wantLen, count int) bool {
	data, err := os.ReadFile(path)
	if err != nil || len(data) != wantLen || len(data) < 4 {
		return false
	}
	if crc32.ChecksumIEEE(data[:len(data)-4]) != binary.BigEndian.Uint32(data[len(data)-4:]) {
		return false
	}
	seg, err := (&zap.ZapPlugin{}).Open(path)
	if err != nil {
		return false
	}
	defer seg.Close()
	return int(seg.Count()) == count
}

func exists(path string) bool {
	_, err := os.Stat(path)
	return err == nil
}

func offsetsFor(total int, cap int, r *rand.Rand, every int) []int {
	set := map[int]bool{}
	if total <= every {
		for k := 0; k < total; k++ {
			set[k] = true
		}
	} else {
		for k := 0; k < 8; k++ {
			set[k] = true
			set[total-1-k] = true
		}
		for b := cap; b < total; b += cap { // flush boundaries
			for _, d := range []int{-1, 0, 1} {
				if b+d >= 0 && b+d < total {
					set[b+d] = true
				}
			}
			if len(set) > every*2 {
				break
			}
		}
		for k := total - 52; k < total; k++ { // the footer
			if k >= 0 {
				set[k] = true
			}
		}
		for k := 0; k < 64; k++ {
			set[r.Intn(total)] = true
		}
	}
	set[total] = true // at the end: no fault inside the output
	out := []int{}
	for k := range set {
		out = append(out, k)
	}
	sort.Ints(out)
	return out
}

func runOutFile(seed int64, dir, outPath string, quick bool) {
	if !hooksBuild {
		fatal2("outfile needs the verif build tag")
	}
	r := rand.New(rand.NewSource(seed))
	tr := NewTracer(outPath)
	var pending []interface{} // events are written outside the fault windows
	emit := func(e interface{}) { pending = append(pending, e) }
	flush := func() {
		for _, e := range pending {
			tr.Emit(e)
		}
		pending = pending[:0]
	}
	plugin := &zap.ZapPlugin{}
	every := 700
	if !quick {
		every = 4000
	}
	id := 0
	nplans := 0
	// ---- Persist / WriteTo
	profiles := []GenProfile{MergeyProfile(), RichProfile(), bigProfile()}
	profiles[1].StoredHeavy = true
	defMergerBuf := zap.DefaultFileMergerBufferSize
	for pi := range profiles {
		zap.DefaultChunkMode = 1026
		// Persist and WriteTo do not go through the merger's buffer: its configured size must not matter
		// (16 bytes for the small batch, 64 for the one above 4 KiB, the default for the other)
		zap.DefaultFileMergerBufferSize = []int{16, defMergerBuf, 64}[pi%3]
		batch := GenBatch(r, &profiles[pi], 0)
		seg, _, err := plugin.New(MakeDocs(batch))
		if err != nil {
			fatal2("outfile setup: %v", err)
		}
		sb := seg.(*zap.SegmentBase)
		var ref bytes.Buffer
		if _, err := sb.WriteTo(&ref); err != nil {
			fatal2("outfile setup: %v", err)
		}
		total := ref.Len()
		prog := []ofStep{{"w", total - 52, true}}
		for _, n := range []int{8, 8, 8, 8, 8, 4, 4, 4} {
			prog = append(prog, ofStep{"w", n, true})
		}
		for _, kind := range []string{"writeto", "persist"} {
			id++
			emit(EvOutProg{Ev: "outprog", ID: id, Kind: kind, Cap: 4096, Prog: prog, Total: total})
			for _, k := range offsetsFor(total, 4096, r, every) {
				nplans++
				ev := EvOut{Ev: "out", ID: id, Kind: kind, Fault: k, Prog: []ofStep{}}
				if kind == "writeto" {
					w := &failingWriter{limit: k}
					n, err := sb.WriteTo(w)
					ev.Res = classify(err)
					ev.Complete = err == nil && int(n) == total && bytes.Equal(w.buf.Bytes(), ref.Bytes())
					if err != nil {
						ev.Err = err.Error()
					}
				} else {
					path := filepath.Join(dir, "of-persist.zap")
					staleDest(path, k+3) // no-fault run (k = total) and every fourth offset: a longer stale file is in the way
					var err error
					before := dirNames(dir)
					withFileLimit(k, func() { err = sb.Persist(path) })
					stray := strayCount(before, path) // temporary files of the operation must be gone when it returns
					ev.Res = classify(err)
					ev.Exists = exists(path) || (err != nil && stray > 0)
					ev.Complete = err == nil && stray == 0 && completeFile(path, total, len(batch))
					if err != nil {
						ev.Err = err.Error()
					}
					os.Remove(path)
				}
				emit(ev)
			}
			flush()
		}
		seg.Close()
	}
	// ---- Merge
	// the last scenario drops every document of every input (a merge without survivors)
	mprofiles := []GenProfile{MergeyProfile(), SynProfile(), RichProfile(), MergeyProfile()}
	caps := []int{16, 64, 1 << 20, 16}
	for mi := range mprofiles {
		zap.DefaultChunkMode = uint32([]int{1026, 2, 1025, 1026}[mi])
		var segs []segment.Segment
		var drops []*roaring.Bitmap
		survivors := 0
		for s := 0; s < 2+mi%2; s++ {
			p := mprofiles[mi]
			p.MinDocs = 2
			batch := GenBatch(r, &p, 100*s)
			seg, _, err := plugin.New(MakeDocs(batch))
			if err != nil {
				fatal2("outfile setup: %v", err)
			}
			segs = append(segs, seg)
			bm := roaring.New()
			if mi == 3 {
				for d := range batch {
					bm.Add(uint32(d))
				}
			} else if s > 0 {
				for d := range batch {
					if r.Intn(3) == 0 && d > 0 {
						bm.Add(uint32(d))
					}
				}
			}
			drops = append(drops, bm)
			survivors += len(batch) - int(bm.GetCardinality())
		}
		zap.DefaultFileMergerBufferSize = caps[mi]
		path := filepath.Join(dir, "of-merge.zap")
		// fault-free run: record the program
		var prog []ofStep
		polls := 0
		setPollHook(func() { polls++; prog = append(prog, ofStep{K: "p"}) })
		os.Remove(path)
		_, size, err := plugin.Merge(segs, drops, path, make(chan struct{}), &recReporter{func(n uint64) { prog = append(prog, ofStep{"w", int(n), true}) }})
		setPollHook(nil)
		if err != nil || !completeFile(path, int(size), survivors) {
			id++
			emit(EvOutProg{Ev: "outprog", ID: id, Kind: "merge", Cap: caps[mi], Prog: []ofStep{{"w", 1, true}}, Total: 1})
			emit(EvOut{Ev: "out", ID: id, Kind: "merge", Fault: -1, Res: classify(err), Exists: exists(path), Complete: false, Err: fmt.Sprint(err), Prog: []ofStep{}})
			flush()
			continue
		}
		total := int(size)
		id++
		emit(EvOutProg{Ev: "outprog", ID: id, Kind: "merge", Cap: caps[mi], Prog: prog, Total: total, Polls: polls})
		run := func(ev EvOut, ch chan struct{}, rep segment.StatsReporter, limit int) {
			nplans++
			staleDest(path, nplans)
			var err error
			before := dirNames(dir)
			do := func() { _, _, err = plugin.Merge(segs, drops, path, ch, rep) }
			if limit >= 0 {
				withFileLimit(limit, do)
			} else {
				do()
			}
			setPollHook(nil)
			stray := strayCount(before, path) // temporary files of the operation must be gone when it returns
			ev.Res = classify(err)
			ev.Prog = []ofStep{}
			ev.Exists = exists(path) || (err != nil && stray > 0)
			ev.Complete = err == nil && stray == 0 && completeFile(path, total, survivors)
			if err != nil {
				ev.Err = err.Error()
			}
			os.Remove(path)
			emit(ev)
		}
		// write faults at byte offsets
		for _, k := range offsetsFor(total, caps[mi], r, every) {
			run(EvOut{Ev: "out", ID: id, Kind: "merge", Fault: k}, make(chan struct{}), nil, k)
		}
		flush()
		// cancellation found at the j-th poll, for every j (and one beyond)
		js := []int{}
		for j := 1; j <= polls+1; j++ {
			js = append(js, j)
		}
		if quick && len(js) > 80 {
			r.Shuffle(len(js), func(a, b int) { js[a], js[b] = js[b], js[a] })
			js = append(js[:76], 1, 2, polls, polls+1)
		}
		for _, j := range js {
			ch := make(chan struct{})
			n := 0
			jj := j
			setPollHook(func() {
				n++
				if n == jj {
					close(ch)
				}
			})
			run(EvOut{Ev: "out", ID: id, Kind: "merge", Fault: -1, Cancel: j}, ch, nil, -1)
		}
		// channel closed before the call
		{
			ch := make(chan struct{})
			close(ch)
			run(EvOut{Ev: "out", ID: id, Kind: "merge", Fault: -1, Cancel: 1}, ch, nil, -1)
		}
		// closed from inside the i-th write callback
		nw := 0
		for _, s := range prog {
			if s.K == "w" {
				nw++
			}
		}
		is := []int{1, 2, nw / 2, nw - 9, nw - 8, nw - 1, nw}
		for k := 0; k < 24; k++ {
			is = append(is, 1+r.Intn(nw))
		}
		for _, i := range is {
			if i < 1 || i > nw {
				continue
			}
			// the order of the section merges varies from run to run (map iteration), so whether a poll
			// follows the i-th write is decided by this run's own step sequence, which is logged
			ch := make(chan struct{})
			n := 0
			ii := i
			own := []ofStep{}
			setPollHook(func() { own = append(own, ofStep{K: "p"}) })
			rep := &recReporter{func(b uint64) {
				own = append(own, ofStep{"w", int(b), true})
				n++
				if n == ii {
					close(ch)
				}
			}}
			run(EvOut{Ev: "out", ID: id, Kind: "merge", Fault: -1, CancelW: i}, ch, rep, -1)
			pending[len(pending)-1] = withProg(pending[len(pending)-1].(EvOut), own)
		}
		// closed by another goroutine after a random delay
		for k := 0; k < 12; k++ {
			ch := make(chan struct{})
			d := time.Duration(r.Intn(400)) * time.Microsecond
			go func() { time.Sleep(d); close(ch) }()
			run(EvOut{Ev: "out", ID: id, Kind: "merge", Fault: -1, Cancel: -1}, ch, nil, -1)
		}
		// a write fault and a cancellation in the same run
		for k := 0; k < 10; k++ {
			ch := make(chan struct{})
			if polls == 0 {
				break
			}
			j := 1 + r.Intn(polls)
			n := 0
			setPollHook(func() {
				n++
				if n == j {
					close(ch)
				}
			})
			f := r.Intn(total)
			run(EvOut{Ev: "out", ID: id, Kind: "merge", Fault: f, Cancel: j}, ch, nil, f)
		}
		flush()
		for _, s := range segs {
			s.Close()
		}
	}
	zap.DefaultFileMergerBufferSize = 1024 * 1024
	tr.Close()
	_ = io.EOF
	fmt.Printf("events=%d programs=%d plans=%d\n", tr.N, id, nplans)
}
