package main

// C03: replay of DvVisit walks (every visiting order / state reuse over two
// segments) on real segments for every doc-value chunk size and provenance.

import (
	"encoding/json"
	"fmt"
	"os"
	"path/filepath"
	"runtime"
	"runtime/debug"
	"sort"
	"sync"

	"github.com/RoaringBitmap/roaring/v2"
	segment "github.com/blevesearch/scorch_segment_api/v2"
	zap "github.com/blevesearch/zapx/v16"
)

type dvVisit struct {
	Seg   int    `json:"seg"`
	D     int    `json:"d"`
	Reuse bool   `json:"reuse"`
	Ret   []ODvT `json:"ret"`
}

type dvWalk struct {
	Visits []dvVisit `json:"visits"`
}

type dvTables struct {
	Fields []B `json:"fields"`
	Segs   []struct {
		Batch []Doc `json:"batch"`
		DvF   []B   `json:"dvf"`
	} `json:"segs"`
}

type dvDiff struct {
	Walk  dvWalk `json:"walk"`
	CS    int    `json:"cs"`
	Kinds string `json:"kinds"`
	What  string `json:"what"`
	Got   string `json:"got"`
	Want  string `json:"want"`
}

func dvKey(x ODvT) string { return string(x.F) + "\x00|" + string(x.T) }

func sortedDv(xs []ODvT) []string {
	r := make([]string, len(xs))
	for i, x := range xs {
		r[i] = dvKey(x)
	}
	sort.Strings(r)
	return r
}

func threeKinds(plugin *zap.ZapPlugin, dir, name string, batch []Doc) (map[string]segment.Segment, error) {
	out := map[string]segment.Segment{}
	seg, _, err := plugin.New(MakeDocs(batch))
	if err != nil {
		return nil, fmt.Errorf("build: %v", err)
	}
	out["mem"] = seg
	path := filepath.Join(dir, name+".zap")
	os.Remove(path)
	if err := seg.(segment.UnpersistedSegment).Persist(path); err != nil {
		return nil, fmt.Errorf("persist: %v", err)
	}
	ms, err := plugin.Open(path)
	if err != nil {
		return nil, fmt.Errorf("open: %v", err)
	}
	out["mmap"] = ms
	mpath := filepath.Join(dir, name+"-m.zap")
	os.Remove(mpath)
	if _, _, err := plugin.Merge([]segment.Segment{seg}, []*roaring.Bitmap{nil}, mpath, nil, nil); err != nil {
		return nil, fmt.Errorf("merge: %v", err)
	}
	mg, err := plugin.Open(mpath)
	if err != nil {
		return nil, fmt.Errorf("open merged: %v", err)
	}
	out["merged"] = mg
	return out, nil
}

func runDvVisit(walksPath, tablesPath, dir, outPath string, quick bool) {
	var tb dvTables
	raw, err := os.ReadFile(tablesPath)
	if err != nil {
		fatal2("%v", err)
	}
	if err := json.Unmarshal(raw, &tb); err != nil {
		fatal2("tables: %v", err)
	}
	for s := range tb.Segs {
		for i := range tb.Segs[s].Batch {
			tb.Segs[s].Batch[i].Canon()
		}
	}
	fields := make([]string, len(tb.Fields))
	for i, f := range tb.Fields {
		fields[i] = string(f)
	}
	var walks []*dvWalk
	forEachLine(walksPath, func(line []byte) {
		w := &dvWalk{}
		if err := json.Unmarshal(line, w); err != nil {
			fatal2("walk: %v", err)
		}
		walks = append(walks, w)
	})
	plugin := &zap.ZapPlugin{}
	var diffs []dvDiff
	runs, reloads := 0, 0
	kindsets := [][2]string{{"mem", "mem"}, {"mmap", "mmap"}, {"merged", "merged"}, {"mem", "mmap"}, {"merged", "mem"}, {"mmap", "merged"}}
	for _, cs := range []int{1, 2, 3, 1024} {
		zap.LegacyChunkMode = uint32(cs)
		zap.DefaultChunkMode = 1026
		var segs [2]map[string]segment.Segment
		for s := 0; s < 2; s++ {
			m, err := threeKinds(plugin, dir, fmt.Sprintf("dv%d-%d", cs, s), tb.Segs[s].Batch)
			if err != nil {
				diffs = append(diffs, dvDiff{CS: cs, What: "setup", Got: err.Error()})
				continue
			}
			segs[s] = m
			for kind, sg := range m {
				got, _ := sg.(segment.DocValueVisitable).VisitableDocValueFields()
				g := append([]string{}, got...)
				sort.Strings(g)
				w := []string{}
				for _, f := range tb.Segs[s].DvF {
					w = append(w, string(f))
				}
				sort.Strings(w)
				if fmt.Sprint(g) != fmt.Sprint(w) {
					diffs = append(diffs, dvDiff{CS: cs, Kinds: kind, What: fmt.Sprintf("VisitableDocValueFields seg %d", s+1), Got: js(bs(g)), Want: js(bs(w))})
				}
			}
		}
		if segs[0] == nil || segs[1] == nil {
			continue
		}
		var mu sync.Mutex
		var wg sync.WaitGroup
		nw := runtime.NumCPU()
		for k := 0; k < nw; k++ {
			wg.Add(1)
			go func(k int) {
				debug.SetPanicOnFault(true)
				defer wg.Done()
				var ld []dvDiff
				lr := 0
				for wi := k; wi < len(walks); wi += nw {
					w := walks[wi]
					for _, ks := range kindsets {
						lr++
						func() {
							defer func() {
								if x := recover(); x != nil {
									ld = append(ld, dvDiff{Walk: *w, CS: cs, Kinds: ks[0] + "," + ks[1], What: "panic", Got: fmt.Sprint(x)})
								}
							}()
							var st segment.DocVisitState
							for i, v := range w.Visits {
								sg := segs[v.Seg-1][ks[v.Seg-1]]
								if !v.Reuse {
									st = nil
								}
								var got []ODvT
								st2, e := sg.(segment.DocValueVisitable).VisitDocValues(uint64(v.D), fields, func(field string, term []byte) {
									got = append(got, ODvT{F: B(field), T: append(B{}, term...)})
								}, st)
								if e != nil {
									ld = append(ld, dvDiff{Walk: *w, CS: cs, Kinds: ks[0] + "," + ks[1], What: fmt.Sprintf("visit %d error", i), Got: e.Error()})
									return
								}
								st = st2
								if fmt.Sprint(sortedDv(got)) != fmt.Sprint(sortedDv(v.Ret)) {
									ld = append(ld, dvDiff{Walk: *w, CS: cs, Kinds: ks[0] + "," + ks[1], What: fmt.Sprintf("visit %d", i), Got: js(got), Want: js(v.Ret)})
									return
								}
							}
						}()
					}
				}
				mu.Lock()
				diffs = append(diffs, ld...)
				runs += lr
				mu.Unlock()
			}(k)
		}
		wg.Wait()
		for s := 0; s < 2; s++ {
			for _, sg := range segs[s] {
				sg.Close()
			}
		}
	}
	_ = reloads
	tr := NewTracer(outPath)
	for i, d := range diffs {
		if i < 200 {
			tr.Emit(d)
		}
	}
	tr.Close()
	fmt.Printf("walks=%d runs=%d diffs=%d\n", len(walks), runs, len(diffs))
}
