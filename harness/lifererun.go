package main

// Re-execution of a recorded lifecycle trace: the logged inputs of every event
// are a script (used to reproduce a violation from its replay file).

import (
	"encoding/json"
)

type anyEv struct {
	Ev     string        `json:"ev"`
	LCM    int           `json:"lcm"`
	Tag    string        `json:"tag"`
	Sid    int           `json:"sid"`
	File   int           `json:"file"`
	Mode   int           `json:"mode"`
	Batch  []Doc         `json:"batch"`
	Ins    []int         `json:"ins"`
	Drops  []Drop        `json:"drops"`
	Visits []DvWalkVisit `json:"visits"`
	Fs     []B           `json:"fs"`
}

func (l *Life) Rerun(path string) int {
	n := 0
	forEachLine(path, func(line []byte) {
		var e anyEv
		if err := json.Unmarshal(line, &e); err != nil {
			fatal2("rerun: %v", err)
		}
		n++
		switch e.Ev {
		case "reset":
			l.Reset(e.LCM, e.Tag)
		case "build", "buildfail":
			for i := range e.Batch {
				e.Batch[i].Canon()
			}
			l.Build(e.Batch, e.Mode)
		case "persist":
			if h := l.segs[e.Sid]; h != nil {
				l.Persist(h)
			}
		case "open":
			if _, ok := l.files[e.File]; ok {
				l.Open(e.File)
			}
		case "merge":
			ins := []*hseg{}
			for _, s := range e.Ins {
				if h := l.segs[s]; h != nil {
					ins = append(ins, h)
				}
			}
			if len(ins) == len(e.Ins) {
				for i := range e.Drops {
					if e.Drops[i].Ds == nil {
						e.Drops[i].Ds = Ints{}
					}
				}
				l.Merge(ins, e.Drops, e.Mode)
			}
		case "dvwalk":
			fs := make([]string, len(e.Fs))
			for i, f := range e.Fs {
				fs[i] = string(f)
			}
			l.DvWalkScript(fs, e.Visits)
		case "close":
			if h := l.segs[e.Sid]; h != nil {
				l.Close(h)
			}
		}
	})
	for _, h := range l.live() {
		l.Close(h)
	}
	return n
}
