package main

// C20: replay of RefCount walks on a real mmap-opened file; the mapping and the
// descriptor are inspected through /proc after every operation.

import (
	"bytes"
	"encoding/json"
	"fmt"
	"math/rand"
	"os"
	"path/filepath"
	"runtime/debug"
	"strings"
	"sync"
	"time"

	segment "github.com/blevesearch/scorch_segment_api/v2"
	zap "github.com/blevesearch/zapx/v16"
)

type rcOp struct {
	H  int    `json:"h"`
	Op string `json:"op"`
}

type rcWalk struct {
	Ops []rcOp `json:"ops"`
}

type rcDiff struct {
	Walk rcWalk `json:"walk"`
	Step int    `json:"step"`
	What string `json:"what"`
	Got  string `json:"got"`
	Want string `json:"want"`
}

func mappingsOf(path string) int {
	raw, err := os.ReadFile("/proc/self/maps")
	if err != nil {
		fatal2("/proc/self/maps: %v", err)
	}
	n := 0
	for _, line := range strings.Split(string(raw), "\n") {
		if strings.HasSuffix(line, path) {
			n++
		}
	}
	return n
}

func fdsOf(path string) int {
	ents, err := os.ReadDir("/proc/self/fd")
	if err != nil {
		fatal2("/proc/self/fd: %v", err)
	}
	n := 0
	for _, e := range ents {
		if t, err := os.Readlink("/proc/self/fd/" + e.Name()); err == nil && t == path {
			n++
		}
	}
	return n
}

// readAll reads every stored field and id of the segment and compares with the tables.
func readAll(seg segment.Segment, tb *cpTables) (bad string) {
	debug.SetPanicOnFault(true) // per goroutine: a read of an unmapped page becomes a panic
	defer func() {
		if x := recover(); x != nil {
			bad = fmt.Sprintf("read failed: %v", x)
		}
	}()
	if int(seg.Count()) != len(tb.Stored) {
		return fmt.Sprintf("Count %d", seg.Count())
	}
	for d := range tb.Stored {
		var got []OVal
		err := seg.VisitStoredFields(uint64(d), func(field string, typ byte, value []byte, pos []uint64) bool {
			got = append(got, OVal{F: B(field), Ty: int(typ), V: append(B{}, value...), AP: ap2ints(pos)})
			return true
		})
		if err != nil {
			return err.Error()
		}
		want := make([]OVal, len(tb.Stored[d]))
		for i, w := range tb.Stored[d] {
			if w.AP == nil {
				w.AP = Ints{}
			}
			want[i] = w
		}
		if js(got) != js(want) {
			return fmt.Sprintf("stored fields of %d: %s", d, js(got))
		}
		id, err := seg.DocID(uint64(d))
		if err != nil || !bytes.Equal(id, tb.IDs[d]) {
			return fmt.Sprintf("DocID(%d) = %q %v", d, id, err)
		}
	}
	dict, err := seg.Dictionary("_id")
	if err != nil {
		return err.Error()
	}
	for d := range tb.IDs {
		pl, err := dict.PostingsList(tb.IDs[d], nil, nil)
		if err != nil || pl.Count() != 1 {
			return fmt.Sprintf("postings of id %d: %v", d, err)
		}
	}
	return ""
}

// firstDiff shows where two serialised observations part.
func firstDiff(a, b string) string {
	i := 0
	for i < len(a) && i < len(b) && a[i] == b[i] {
		i++
	}
	lo := i - 60
	if lo < 0 {
		lo = 0
	}
	hi := i + 120
	if hi > len(a) {
		hi = len(a)
	}
	return fmt.Sprintf("at byte %d: ...%s", i, a[lo:hi])
}

func runRefCount(walksPath, tablesPath, dir, outPath string, stress int) {
	var tb cpTables
	raw, err := os.ReadFile(tablesPath)
	if err != nil {
		fatal2("%v", err)
	}
	if err := json.Unmarshal(raw, &tb); err != nil {
		fatal2("tables: %v", err)
	}
	for i := range tb.Batch {
		tb.Batch[i].Canon()
	}
	plugin := &zap.ZapPlugin{}
	zap.DefaultChunkMode = 1026
	mem, _, err := plugin.New(MakeDocs(tb.Batch))
	if err != nil {
		fatal2("refcount setup: %v", err)
	}
	base := filepath.Join(dir, "rc-base.zap")
	os.Remove(base)
	if err := mem.(segment.UnpersistedSegment).Persist(base); err != nil {
		fatal2("refcount setup: %v", err)
	}
	data, _ := os.ReadFile(base)
	// "fully readable": besides the tables from the model, the complete query surface (dictionaries, postings with
	// details, doc values, thesauri, iterator probes) must keep answering what a fresh handle answers
	uni := universeOf(tb.Batch)
	probes := probesFor(uni, rand.New(rand.NewSource(1)), len(tb.Batch), false)
	surface := func(seg segment.Segment) string { return js(Observe(seg, probes)) }
	var baseline string
	{
		fresh, err := plugin.Open(base)
		if err != nil {
			fatal2("refcount setup: %v", err)
		}
		baseline = surface(fresh)
		if again := surface(fresh); again != baseline {
			fatal2("refcount setup: the query surface of a fresh handle is not stable")
		}
		fresh.Close()
	}
	var diffs []rcDiff
	nw, nops := 0, 0
	forEachLine(walksPath, func(line []byte) {
		var w rcWalk
		if err := json.Unmarshal(line, &w); err != nil {
			fatal2("walk: %v", err)
		}
		nw++
		path := filepath.Join(dir, fmt.Sprintf("rc-%d.zap", nw))
		if err := os.WriteFile(path, data, 0o600); err != nil {
			fatal2("%v", err)
		}
		defer os.Remove(path)
		diff := func(i int, what string, got, want interface{}) {
			diffs = append(diffs, rcDiff{Walk: w, Step: i, What: what, Got: fmt.Sprint(got), Want: fmt.Sprint(want)})
		}
		seg, err := plugin.Open(path)
		if err != nil {
			diff(-1, "Open", err, nil)
			return
		}
		refs := 1
		for i, op := range w.Ops {
			nops++
			var e error
			func() {
				defer func() {
					if x := recover(); x != nil {
						e = fmt.Errorf("panic: %v", x)
					}
				}()
				switch op.Op {
				case "addref":
					seg.AddRef()
					refs++
				case "decref":
					e = seg.DecRef()
					refs--
				case "close":
					e = seg.Close()
					refs--
				}
			}()
			if e != nil {
				diff(i, op.Op+" returned an error", e, nil)
			}
			if refs > 0 {
				if m := mappingsOf(path); m != 1 {
					diff(i, "mappings while references are held", m, 1)
					break
				}
				if f := fdsOf(path); f != 1 {
					diff(i, "descriptors while references are held", f, 1)
				}
				if bad := readAll(seg, &tb); bad != "" {
					diff(i, "read while references are held", bad, "the segment's content")
					break
				}
				if got := surface(seg); got != baseline {
					diff(i, "query surface while references are held", firstDiff(got, baseline), "what a fresh handle answers")
					break
				}
			} else {
				if m := mappingsOf(path); m != 0 {
					diff(i, "mappings after the last release", m, 0)
				}
				if f := fdsOf(path); f != 0 {
					diff(i, "descriptors after the last release", f, 0)
				}
			}
		}
	})
	// in-memory segments: Close is harmless
	if err := mem.Close(); err != nil {
		diffs = append(diffs, rcDiff{Step: -1, What: "Close of an in-memory segment", Got: err.Error()})
	}
	// concurrent holders and readers
	synName := ""
	for i := range tb.Batch {
		for j := range tb.Batch[i].Fields {
			if tb.Batch[i].Fields[j].Kind == KindSyn {
				synName = string(tb.Batch[i].Fields[j].Name)
			}
		}
	}
	blocked := false
	for round := 0; round < stress; round++ {
		path := filepath.Join(dir, fmt.Sprintf("rc-s%d.zap", round))
		os.WriteFile(path, data, 0o600)
		seg, err := plugin.Open(path)
		if err != nil {
			diffs = append(diffs, rcDiff{Step: -1, What: "Open", Got: err.Error()})
			continue
		}
		const holders = 12
		for h := 0; h < holders; h++ {
			seg.AddRef()
		}
		var wg sync.WaitGroup
		var mu sync.Mutex
		start := make(chan struct{})
		for h := 0; h < holders; h++ {
			wg.Add(1)
			go func(h int) {
				defer wg.Done()
				<-start
				// all holders go for the (cold) thesaurus at once: the lazily filled caches are created here
				if ts, ok := seg.(segment.ThesaurusSegment); ok && synName != "" {
					func() {
						defer func() { recover() }()
						if th, err := ts.Thesaurus(synName); err == nil && th != nil {
							if sl, err := th.SynonymsList([]byte{97}, nil, nil); err == nil && sl != nil {
								sl.Iterator(nil).Next()
							}
						}
					}()
				}
				for k := 0; k < 3; k++ {
					if bad := readAll(seg, &tb); bad != "" {
						mu.Lock()
						diffs = append(diffs, rcDiff{Step: -2, What: "concurrent read while references are held", Got: bad})
						mu.Unlock()
					}
					if got := surface(seg); got != baseline {
						mu.Lock()
						diffs = append(diffs, rcDiff{Step: -2, What: "concurrent query surface while references are held", Got: firstDiff(got, baseline)})
						mu.Unlock()
					}
					if k == h%3 {
						seg.AddRef()
						if err := seg.DecRef(); err != nil {
							mu.Lock()
							diffs = append(diffs, rcDiff{Step: -2, What: "concurrent DecRef returned an error", Got: err.Error()})
							mu.Unlock()
						}
					}
				}
				if err := seg.DecRef(); err != nil {
					mu.Lock()
					diffs = append(diffs, rcDiff{Step: -2, What: "concurrent DecRef returned an error", Got: err.Error()})
					mu.Unlock()
				}
			}(h)
		}
		close(start)
		// a holder that never returns (a lock left behind, say) is a violation of "remains readable / is released":
		// the round gets 30 s, then the run reports it and stops
		finished := make(chan struct{})
		go func() {
			defer close(finished)
			if round%2 == 0 {
				if err := seg.Close(); err != nil {
					mu.Lock()
					diffs = append(diffs, rcDiff{Step: -2, What: "Close returned an error", Got: err.Error()})
					mu.Unlock()
				}
				wg.Wait()
			} else {
				wg.Wait()
				if mappingsOf(path) != 1 {
					mu.Lock()
					diffs = append(diffs, rcDiff{Step: -2, What: "mappings while the opener's reference is held", Got: fmt.Sprint(mappingsOf(path)), Want: "1"})
					mu.Unlock()
				}
				if err := seg.Close(); err != nil {
					mu.Lock()
					diffs = append(diffs, rcDiff{Step: -2, What: "Close returned an error", Got: err.Error()})
					mu.Unlock()
				}
			}
		}()
		select {
		case <-finished:
		case <-time.After(30 * time.Second):
			mu.Lock()
			diffs = append(diffs, rcDiff{Step: -2, What: "holders blocked: a read or a release did not return within 30 s", Got: fmt.Sprint("mappings ", mappingsOf(path)), Want: "all holders done, mapping released"})
			mu.Unlock()
			stress = round + 1
			blocked = true
		}
		if blocked {
			break
		}
		if m, f := mappingsOf(path), fdsOf(path); m != 0 || f != 0 {
			diffs = append(diffs, rcDiff{Step: -2, What: "mapping / descriptor left after the last release", Got: fmt.Sprint(m, f), Want: "0 0"})
		}
		os.Remove(path)
	}
	tr := NewTracer(outPath)
	for i, d := range diffs {
		if i < 200 {
			tr.Emit(d)
		}
	}
	tr.Close()
	fmt.Printf("walks=%d ops=%d stress_rounds=%d diffs=%d\n", nw, nops, stress, len(diffs))
}
