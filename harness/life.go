package main

// Lifecycle driver: build / persist / open / merge / close, every step logged
// with the complete observation (DESIGN §3.3).  Random (seeded) schedules and
// replay of TLC-generated walks use the same executor.

import (
	"bufio"
	"bytes"
	"encoding/binary"
	"encoding/json"
	"fmt"
	"hash/crc32"
	"math/rand"
	"os"
	"path/filepath"
	"sort"

	"github.com/RoaringBitmap/roaring/v2"
	index "github.com/blevesearch/bleve_index_api"
	segment "github.com/blevesearch/scorch_segment_api/v2"
	zap "github.com/blevesearch/zapx/v16"
)

type Tracer struct {
	f   *os.File
	w   *bufio.Writer
	enc *json.Encoder
	N   int
}

func NewTracer(path string) *Tracer {
	f, err := os.Create(path)
	if err != nil {
		fatal2("cannot create trace: %v", err)
	}
	w := bufio.NewWriterSize(f, 1<<20)
	enc := json.NewEncoder(w)
	enc.SetEscapeHTML(false)
	return &Tracer{f: f, w: w, enc: enc}
}

func (t *Tracer) Emit(ev interface{}) {
	wdMu.Lock()
	defer wdMu.Unlock()
	if err := t.enc.Encode(ev); err != nil {
		fatal2("trace encode: %v", err)
	}
	t.w.Flush() // nothing is lost if the code under test brings the process down
	t.N++
}

func (t *Tracer) Close() {
	t.w.Flush()
	t.f.Close()
}

// fatal2 = infrastructure failure (exit 2), never a verdict.
func fatal2(f string, a ...interface{}) {
	fmt.Fprintf(os.Stderr, "HARNESS-FAILURE: "+f+"\n", a...)
	os.Exit(2)
}

// ---------------------------------------------------------------------------
// events

type EvReset struct {
	Ev  string `json:"ev"`
	LCM int    `json:"lcm"`
	Tag string `json:"tag"`
}

type EvBuild struct {
	Ev    string `json:"ev"`
	Sid   int    `json:"sid"`
	Mode  int    `json:"mode"`
	Batch []Doc  `json:"batch"`
	Size  int    `json:"size"`
	Obs   *Obs   `json:"obs"`
}

type EvBuildFail struct {
	Ev       string `json:"ev"`
	Mode     int    `json:"mode"`
	Batch    []Doc  `json:"batch"`
	Rejected bool   `json:"rejected"` // the batch contains a field the installed validator rejects
	Panic    string `json:"panic"`
	Engine   bool   `json:"engine"` // an engine failure was injected into this build
}

type Footer struct {
	N    int  `json:"n"`
	Mode int  `json:"mode"`
	Ver  int  `json:"ver"`
	CRC  Ints `json:"crc"` // [hi16, lo16] as stored in the file
}

type EvPersist struct {
	Ev     string `json:"ev"`
	Sid    int    `json:"sid"`
	File   int    `json:"file"`
	Err    bool   `json:"err"`
	Exists bool   `json:"exists"`
	Same   bool   `json:"same"`  // WriteTo bytes == file bytes
	WN     int    `json:"wn"`    // WriteTo's returned count
	FLen   int    `json:"flen"`  // file length
	CRCOK  bool   `json:"crcok"` // crc32 (IEEE, Go stdlib) of bytes[0:len-4] == trailing 4 bytes
	Foot   Footer `json:"foot"`  // footer fields parsed at the fixed positions from the end
	Bytes  B      `json:"bytes"` // file bytes when small enough for TLC to decode the layout, else []
	Path   string `json:"path"`  // a kept copy of that file (for the leaf decoders)
	Stray  int    `json:"stray"` // files the operation left in the directory besides its destination
}

type EvOpen struct {
	Ev   string `json:"ev"`
	Sid  int    `json:"sid"`
	File int    `json:"file"`
	Err  string `json:"err"`
	Foot Footer `json:"foot"` // via Segment.NumDocs/ChunkMode/Version/CRC
	Obs  *Obs   `json:"obs"`
}

type Drop struct {
	Nil bool `json:"nil"`
	Ds  Ints `json:"ds"`
}

type EvMerge struct {
	Ev     string `json:"ev"`
	File   int    `json:"file"`
	Ins    Ints   `json:"ins"`
	Drops  []Drop `json:"drops"`
	Mode   int    `json:"mode"`
	Err    string `json:"err"`
	Panic  string `json:"panic"`
	Maps   []Ints `json:"maps"` // -1 = all-ones sentinel; MapsNil marks a nil outer slice
	Size   int    `json:"size"`
	Exists bool   `json:"exists"`
	FLen   int    `json:"flen"`
	Engine bool   `json:"engine"` // an engine failure was injected into this merge
	Bytes  B      `json:"bytes"`
	Path   string `json:"path"`
	Stray  int    `json:"stray"` // files the operation left in the directory besides its destination
}

type DvWalkVisit struct {
	Sid   int    `json:"sid"`
	D     int    `json:"d"`
	Reuse bool   `json:"reuse"`
	R     []ODvT `json:"r"`
}

type EvDvWalk struct {
	Ev     string        `json:"ev"`
	Fs     []B           `json:"fs"`
	Visits []DvWalkVisit `json:"visits"`
	Err    string        `json:"err"`
}

type EvClose struct {
	Ev  string `json:"ev"`
	Sid int    `json:"sid"`
	Err string `json:"err"`
}

// ---------------------------------------------------------------------------

type hseg struct {
	sid    int
	seg    segment.Segment
	mem    bool
	closed bool
	uni    *universe
	ndocs  int
	lin    map[int]bool // builds this segment descends from
	zero   bool         // opened from a merge without survivors (known finding: not merged again)
}

// universe = what the inputs of a segment mention (drives the probes).
type universe struct {
	fields map[string]bool
	terms  map[string]map[string]bool
	ids    map[string]bool
	thes   map[string]map[string]bool
	vecs   map[string][][]int
	ndocs  int
}

func newUniverse() *universe {
	return &universe{fields: map[string]bool{}, terms: map[string]map[string]bool{}, ids: map[string]bool{},
		thes: map[string]map[string]bool{}, vecs: map[string][][]int{}}
}

func (u *universe) addTerm(f, t string) {
	if u.terms[f] == nil {
		u.terms[f] = map[string]bool{}
	}
	u.terms[f][t] = true
}

func universeOf(batch []Doc) *universe {
	u := newUniverse()
	u.ndocs = len(batch)
	for i := range batch {
		d := &batch[i]
		u.ids[string(d.ID)] = true
		all := append(append([]FieldInst{}, d.Composite...), d.Fields...)
		for j := range all {
			fi := &all[j]
			name := string(fi.Name)
			u.fields[name] = true
			switch fi.Kind {
			case KindSyn:
				if u.thes[name] == nil {
					u.thes[name] = map[string]bool{}
				}
				for _, df := range fi.Defs {
					u.thes[name][string(df.T)] = true
				}
			case KindVec:
				u.vecs[name] = append(u.vecs[name], []int(fi.Vec))
			default:
				for _, t := range fi.Toks {
					u.addTerm(name, string(t.T))
				}
			}
		}
	}
	return u
}

func (u *universe) merge(o *universe) {
	for f := range o.fields {
		u.fields[f] = true
	}
	for f, ts := range o.terms {
		for t := range ts {
			u.addTerm(f, t)
		}
	}
	for id := range o.ids {
		u.ids[id] = true
	}
	for n, ts := range o.thes {
		if u.thes[n] == nil {
			u.thes[n] = map[string]bool{}
		}
		for t := range ts {
			u.thes[n][t] = true
		}
	}
	for f, vs := range o.vecs {
		u.vecs[f] = append(u.vecs[f], vs...)
	}
	u.ndocs += o.ndocs
}

func sortedKeys(m map[string]bool) []string {
	r := make([]string, 0, len(m))
	for k := range m {
		r = append(r, k)
	}
	sort.Strings(r)
	return r
}

// probesFor derives the probe plan from a universe (inputs only).
func probesFor(u *universe, r *rand.Rand, ndocs int, light bool) *Probes {
	p := &Probes{Terms: map[string][]string{}, Thes: map[string][]string{}}
	p.Fields = append(sortedKeys(u.fields), "absent\x01field")
	if !u.fields["_id"] {
		p.Fields = append(p.Fields, "_id")
	}
	for _, f := range p.Fields {
		ts := sortedKeys(u.terms[f])
		if len(ts) > maxTermProbes {
			// large dictionaries: the enumeration stays complete, postings are read for a seeded sample
			r.Shuffle(len(ts), func(i, j int) { ts[i], ts[j] = ts[j], ts[i] })
			ts = ts[:maxTermProbes]
			sort.Strings(ts)
			p.Sampled = append(p.Sampled, f)
		}
		ts = append(ts, "absent\x01term")
		if !u.terms[f][""] {
			ts = append(ts, "")
		}
		p.Terms[f] = ts
	}
	// ids also probed as terms of _id
	ids := sortedKeys(u.ids)
	if len(ids) > 40 {
		r.Shuffle(len(ids), func(i, j int) { ids[i], ids[j] = ids[j], ids[i] })
		ids = ids[:40]
		sort.Strings(ids)
	}
	have := map[string]bool{}
	for _, t := range p.Terms["_id"] {
		have[t] = true
	}
	for _, id := range ids {
		if !have[id] {
			p.Terms["_id"] = append(p.Terms["_id"], id)
		}
	}
	unknown := []string{"", "c", "d0", "d99999x", "zzzz", "\xff\xff"}
	for i, id := range ids {
		if i < 12 {
			p.IDSets = append(p.IDSets, []string{id})
		}
	}
	p.IDSets = append(p.IDSets, append([]string{}, ids...))
	p.IDSets = append(p.IDSets, append(append([]string{}, unknown...), ids...))
	for _, x := range unknown {
		p.IDSets = append(p.IDSets, []string{x})
	}
	p.IDSets = append(p.IDSets, []string{})
	all := append([]string{}, p.Fields...)
	p.DvSets = [][]string{all}
	if len(all) > 2 {
		sub := []string{}
		for _, f := range all {
			if r.Intn(2) == 0 {
				sub = append(sub, f)
			}
		}
		if len(sub) > 0 {
			p.DvSets = append(p.DvSets, sub)
		}
	}
	p.Stops = 4
	if light {
		p.Stops = 2
	}
	for n, ts := range u.thes {
		p.Thes[n] = append(sortedKeys(ts), "absent\x01lhs")
	}
	if len(u.thes) > 0 {
		p.Thes["absent\x01thes"] = []string{"a"}
		// ordinary fields are not thesauri
		for f := range u.fields {
			if _, ok := u.thes[f]; !ok {
				p.Thes[f] = []string{"a", "absent\x01lhs"}
			}
		}
		p.SynEx = [][]int{nil, {}}
		for k := 0; k < 3 && ndocs > 0; k++ {
			ex := []int{}
			for d := 0; d < ndocs; d++ {
				if r.Intn(2) == 0 {
					ex = append(ex, d)
				}
			}
			p.SynEx = append(p.SynEx, ex)
		}
		if ndocs > 0 {
			full := []int{}
			for d := 0; d < ndocs; d++ {
				full = append(full, d)
			}
			p.SynEx = append(p.SynEx, full)
		}
	}
	p.Vec = vecProbesFor(u, r, ndocs)
	// random Next/Advance sequences with exclusion bitmaps and detail flags
	pairs := [][2]string{}
	for _, f := range sortedKeys(u.fields) {
		for _, t := range sortedKeys(u.terms[f]) {
			if f != "_id" || r.Intn(20) == 0 {
				pairs = append(pairs, [2]string{f, t})
			}
		}
	}
	r.Shuffle(len(pairs), func(i, j int) { pairs[i], pairs[j] = pairs[j], pairs[i] })
	if len(pairs) > 6 {
		// with many fields, the composite field (its locations name other fields) keeps two of the six probes
		sort.SliceStable(pairs, func(i, j int) bool { return pairs[i][0] == "_all" && pairs[j][0] != "_all" })
		na := 0
		for na < len(pairs) && pairs[na][0] == "_all" {
			na++
		}
		if na > 2 {
			pairs = append(append([][2]string{}, pairs[:2]...), pairs[na:]...)
		}
		if len(pairs) > 6 {
			pairs = pairs[:6]
		}
	}
	for _, ft := range pairs {
		ip := IterProbe{F: ft[0], T: ft[1], Flags: [3]bool{r.Intn(2) == 0, r.Intn(2) == 0, r.Intn(2) == 0}}
		if ft[0] == "_all" && r.Intn(4) != 0 {
			ip.Flags[2] = true // the composite field's locations (they name other fields) are the interesting detail
		}
		switch r.Intn(4) {
		case 0:
			ip.Ex = nil
		case 1:
			ip.Ex = []int{}
		default:
			den := 2 + r.Intn(9)
			for d := 0; d < ndocs; d++ {
				if r.Intn(den) == 0 {
					ip.Ex = append(ip.Ex, d)
				}
			}
		}
		steps := []int{-1, -1, 0, 0, 1, 2, 5, 17, 100, 700}
		for k := 0; k < 14; k++ {
			ip.Skips = append(ip.Skips, steps[r.Intn(len(steps))])
		}
		p.Iter = append(p.Iter, ip)
	}
	return p
}

// ---------------------------------------------------------------------------

const maxTermProbes = 48

type Life struct {
	tr        *Tracer
	r         *rand.Rand
	dir       string
	segs      map[int]*hseg
	nextSid   int
	nextFil   int
	files     map[int]*universe
	fileN     map[int]int
	fileZ     map[int]bool
	fileL     map[int]map[int]bool
	plugin    *zap.ZapPlugin
	light     bool
	injected  bool   // an engine failure plan is active (failed builds / merges are explained by it)
	afterNew  func() // called right after ZapPlugin.New returned (before the observation)
	parkGC    bool   // build-history mode: garbage collector parked, residues logged
	maxTLC    int    // files up to this size are logged byte for byte
	nkept     int
	keepFiles bool // corpus generation: files of a scenario are not removed at the next reset
}

func NewLife(tr *Tracer, r *rand.Rand, dir string) *Life {
	return &Life{tr: tr, r: r, dir: dir, segs: map[int]*hseg{}, files: map[int]*universe{}, fileN: map[int]int{}, fileZ: map[int]bool{}, fileL: map[int]map[int]bool{},
		plugin: &zap.ZapPlugin{}, maxTLC: 0}
}

func (l *Life) Reset(lcm int, tag string) {
	for _, s := range l.segs {
		if !s.closed {
			s.seg.Close()
		}
	}
	l.segs = map[int]*hseg{}
	if !l.keepFiles {
		for k := range l.files {
			os.Remove(l.path(k))
		}
	}
	l.files = map[int]*universe{}
	l.fileN = map[int]int{}
	l.fileZ = map[int]bool{}
	l.fileL = map[int]map[int]bool{}
	l.nextSid, l.nextFil = 0, 0
	zap.LegacyChunkMode = uint32(lcm)
	// configuration that must not matter for the content: the merger's buffer size (derived from the tag, so that a
	// re-run of the scenario uses the same one)
	h := 0
	for _, c := range tag {
		h = h*31 + int(c)
	}
	zap.DefaultFileMergerBufferSize = []int{1024 * 1024, 64, 4096, 1024 * 1024, 333}[((h%5)+5)%5]
	l.tr.Emit(EvReset{Ev: "reset", LCM: lcm, Tag: tag})
}

// keepCopy stores the bytes of a small file where they stay until the trace has been validated.
func (l *Life) keepCopy(data []byte) string {
	l.nkept++
	dir := filepath.Join(l.dir, "layout")
	os.MkdirAll(dir, 0o755)
	p := filepath.Join(dir, fmt.Sprintf("k%d.zap", l.nkept))
	if err := os.WriteFile(p, data, 0o644); err != nil {
		fatal2("%v", err)
	}
	return p
}

func (l *Life) path(k int) string { return filepath.Join(l.dir, fmt.Sprintf("f%d.zap", k)) }

func rejecting(batch []Doc) bool {
	for i := range batch {
		for j := range batch[i].Fields {
			if batch[i].Fields[j].Reject {
				return true
			}
		}
	}
	return false
}

func installValidator() {
	zap.ValidateDocFields = func(f index.Field) error {
		if sf, ok := f.(interface{ rejected() bool }); ok && sf.rejected() {
			return fmt.Errorf("rejected by validator")
		}
		return nil
	}
}

func (f *stubField) rejected() bool { return f.fi.Reject }

// Build runs ZapPlugin.New on fresh documents and logs the event.
func (l *Life) Build(batch []Doc, mode int) *hseg {
	zap.DefaultChunkMode = uint32(mode)
	var seg segment.Segment
	var size uint64
	var err error
	pan := ""
	func() {
		defer func() {
			if r := recover(); r != nil {
				pan = fmt.Sprintf("%v", r)
			}
		}()
		opBegin("New")
		seg, size, err = l.plugin.New(MakeDocs(batch))
		opEnd()
		if l.afterNew != nil {
			l.afterNew()
		}
	}()
	if pan != "" || err != nil {
		l.tr.Emit(EvBuildFail{Ev: "buildfail", Mode: mode, Batch: batch, Rejected: rejecting(batch), Panic: pan, Engine: l.injected})
		return nil
	}
	u := universeOf(batch)
	h := &hseg{sid: l.nextSid, seg: seg, mem: true, uni: u, ndocs: len(batch), lin: map[int]bool{l.nextSid: true}}
	l.nextSid++
	l.segs[h.sid] = h
	opBegin("queries on built segment")
	obs := Observe(seg, probesFor(u, l.r, len(batch), l.light))
	opEnd()
	l.tr.Emit(EvBuild{Ev: "build", Sid: h.sid, Mode: mode, Batch: batch, Size: ckInt(size), Obs: obs})
	return h
}

func parseFooter(b []byte) Footer {
	if len(b) < 52 {
		return Footer{N: -1, Mode: -1, Ver: -1, CRC: Ints{-1, -1}}
	}
	n := len(b)
	crc := binary.BigEndian.Uint32(b[n-4:])
	ver := binary.BigEndian.Uint32(b[n-8:])
	mode := binary.BigEndian.Uint32(b[n-12:])
	nd := binary.BigEndian.Uint64(b[n-52:])
	return Footer{N: ckInt(nd), Mode: ckInt(uint64(mode)), Ver: ckInt(uint64(ver)), CRC: Ints{int(crc >> 16), int(crc & 0xffff)}}
}

// junkSiblings leaves, for every other destination, longer files of foreign bytes next to it (the names an
// interrupted earlier writer could have left behind): the destination itself is fresh, and what is written to
// it must not depend on its neighbours.  The returned function removes them again.
func junkSiblings(path string, k int) func() {
	if k%2 == 0 {
		return func() {}
	}
	junk := bytes.Repeat([]byte{0xAB, 0x07, 0xFF, 0x10}, 64<<8)
	var made []string
	for _, suf := range []string{".tmp", ".part", ".new", ".bak", "~"} {
		if _, err := os.Stat(path + suf); err == nil {
			continue
		}
		if os.WriteFile(path+suf, junk, 0600) == nil {
			made = append(made, path+suf)
		}
	}
	return func() {
		for _, p := range made {
			os.Remove(p)
		}
	}
}

// dirNames lists a directory; strayCount says how many entries an operation added besides its destination
// (an operation owns its destination path and nothing else: temporary files must be gone when it returns).
func dirNames(dir string) map[string]bool {
	m := map[string]bool{}
	if es, err := os.ReadDir(dir); err == nil {
		for _, e := range es {
			m[e.Name()] = true
		}
	}
	return m
}

func strayCount(before map[string]bool, path string) int {
	n := 0
	for name := range dirNames(filepath.Dir(path)) {
		if !before[name] && name != filepath.Base(path) {
			n++
		}
	}
	return n
}

// staleDest prepares the destination: usually absent, for every fourth file a longer file of foreign bytes
// (what an interrupted earlier writer of the same name leaves behind) that the operation has to replace.
func staleDest(path string, k int) {
	os.Remove(path)
	if k%4 == 3 {
		os.WriteFile(path, bytes.Repeat([]byte{0x5A, 0x00, 0xC3, 0x7F}, 96<<8), 0600)
	}
}

// Persist writes segment h with Persist and with WriteTo and logs the event.
func (l *Life) Persist(h *hseg) int {
	k := l.nextFil
	l.nextFil++
	path := l.path(k)
	staleDest(path, k)
	ev := EvPersist{Ev: "persist", Sid: h.sid, File: k, Bytes: B{}, Foot: Footer{CRC: Ints{}}}
	us, ok := h.seg.(segment.UnpersistedSegment)
	if !ok {
		fatal2("segment %d is not unpersisted", h.sid)
	}
	unjunk := junkSiblings(path, k)
	before := dirNames(filepath.Dir(path))
	opBegin("Persist")
	var err error
	func() {
		defer func() {
			if x := recover(); x != nil {
				err = fmt.Errorf("panic: %v", x)
			}
		}()
		err = us.Persist(path)
	}()
	opEnd()
	ev.Stray = strayCount(before, path)
	unjunk()
	ev.Err = err != nil
	data, rerr := os.ReadFile(path)
	ev.Exists = rerr == nil
	var buf bytes.Buffer
	var n int64
	var werr error
	func() {
		defer func() {
			if x := recover(); x != nil {
				werr = fmt.Errorf("panic: %v", x)
			}
		}()
		n, werr = h.seg.(*zap.SegmentBase).WriteTo(&buf)
	}()
	ev.WN = int(n)
	if werr != nil {
		ev.WN = -1
	}
	if rerr == nil {
		ev.Same = bytes.Equal(buf.Bytes(), data)
		ev.FLen = len(data)
		ev.Foot = parseFooter(data)
		if len(data) >= 4 {
			ev.CRCOK = crc32.ChecksumIEEE(data[:len(data)-4]) == binary.BigEndian.Uint32(data[len(data)-4:])
		}
		if len(data) <= l.maxTLC {
			ev.Bytes = B(data)
			ev.Path = l.keepCopy(data)
		}
	}
	l.tr.Emit(ev)
	if err == nil {
		l.files[k] = h.uni
		l.fileN[k] = h.ndocs
		l.fileL[k] = h.lin
	}
	return k
}

// Open opens file k and logs the observation.
func (l *Life) Open(k int) *hseg {
	opBegin("Open")
	var seg segment.Segment
	var err error
	func() {
		defer func() {
			if x := recover(); x != nil {
				err = fmt.Errorf("panic: %v", x)
			}
		}()
		seg, err = l.plugin.Open(l.path(k))
	}()
	opEnd()
	ev := EvOpen{Ev: "open", Sid: -1, File: k, Foot: Footer{CRC: Ints{}}}
	if err != nil {
		ev.Err = err.Error()
		ev.Obs = emptyObs()
		l.tr.Emit(ev)
		return nil
	}
	h := &hseg{sid: l.nextSid, seg: seg, uni: l.files[k], ndocs: l.fileN[k], zero: l.fileZ[k], lin: l.fileL[k]}
	l.nextSid++
	l.segs[h.sid] = h
	ev.Sid = h.sid
	zs := seg.(*zap.Segment)
	crc := zs.CRC()
	ev.Foot = Footer{N: ckInt(zs.NumDocs()), Mode: ckInt(uint64(zs.ChunkMode())), Ver: ckInt(uint64(zs.Version())),
		CRC: Ints{int(crc >> 16), int(crc & 0xffff)}}
	opBegin("queries on opened segment")
	ev.Obs = Observe(seg, probesFor(h.uni, l.r, int(seg.Count()), l.light))
	opEnd()
	l.tr.Emit(ev)
	return h
}

// Merge merges the given segments with the given drops into a new file.
func (l *Life) Merge(ins []*hseg, drops []Drop, mode int) (int, bool) {
	zap.DefaultChunkMode = uint32(mode)
	k := l.nextFil
	l.nextFil++
	path := l.path(k)
	staleDest(path, k)
	segs := make([]segment.Segment, len(ins))
	bms := make([]*roaring.Bitmap, len(ins))
	ev := EvMerge{Ev: "merge", File: k, Ins: Ints{}, Drops: drops, Mode: mode, Maps: []Ints{}, Engine: l.injected}
	u := newUniverse()
	for i, h := range ins {
		segs[i] = h.seg
		ev.Ins = append(ev.Ins, h.sid)
		if !drops[i].Nil {
			bms[i] = roaring.New()
			for _, d := range drops[i].Ds {
				bms[i].Add(uint32(d))
			}
		}
		u.merge(h.uni)
	}
	var maps [][]uint64
	var size uint64
	var err error
	func() {
		defer func() {
			if r := recover(); r != nil {
				ev.Panic = fmt.Sprintf("%v", r)
			}
		}()
		unjunk := junkSiblings(path, k)
		defer unjunk()
		before := dirNames(filepath.Dir(path))
		defer func() { ev.Stray = strayCount(before, path) }()
		opBegin("Merge")
		maps, size, err = l.plugin.Merge(segs, bms, path, nil, nil)
		opEnd()
	}()
	if err != nil {
		ev.Err = err.Error()
	}
	for _, m := range maps {
		row := make(Ints, len(m))
		for j, x := range m {
			if x == ^uint64(0) {
				row[j] = -1
			} else {
				row[j] = ckInt(x)
			}
		}
		ev.Maps = append(ev.Maps, row)
	}
	ev.Size = ckInt(size)
	ev.Bytes = B{}
	if st, e := os.Stat(path); e == nil {
		ev.Exists = true
		ev.FLen = int(st.Size())
		if err == nil && ev.Panic == "" && ev.FLen <= l.maxTLC {
			if data, e := os.ReadFile(path); e == nil {
				ev.Bytes = B(data)
				ev.Path = l.keepCopy(data)
			}
		}
	}
	l.tr.Emit(ev)
	ok := err == nil && ev.Panic == ""
	if ok {
		l.files[k] = u
		n := 0
		for _, row := range ev.Maps {
			for _, x := range row {
				if x >= 0 {
					n++
				}
			}
		}
		l.fileN[k] = n
		l.fileZ[k] = n == 0 && len(u.fields) > 0
		lin := map[int]bool{}
		for _, h := range ins {
			for b := range h.lin {
				lin[b] = true
			}
		}
		l.fileL[k] = lin
	}
	return k, ok
}

func (l *Life) Close(h *hseg) {
	var err error
	func() {
		defer func() {
			if x := recover(); x != nil {
				err = fmt.Errorf("panic: %v", x)
			}
		}()
		err = h.seg.Close()
	}()
	h.closed = true
	ev := EvClose{Ev: "close", Sid: h.sid}
	if err != nil {
		ev.Err = err.Error()
	}
	l.tr.Emit(ev)
	delete(l.segs, h.sid)
}

// DvWalk visits doc values of random documents of the live segments in random order with one
// visit state that is reused (also across segments) for the same field list.
func (l *Life) DvWalk(n int) {
	live := l.live()
	if len(live) == 0 {
		return
	}
	u := newUniverse()
	for _, h := range live {
		u.merge(h.uni)
	}
	fs := append(sortedKeys(u.fields), "absent\x01field")
	l.r.Shuffle(len(fs), func(i, j int) { fs[i], fs[j] = fs[j], fs[i] })
	if len(fs) > 3 && l.r.Intn(2) == 0 {
		fs = fs[:2+l.r.Intn(len(fs)-2)]
	}
	var plan []DvWalkVisit
	cur := live[l.r.Intn(len(live))]
	for i := 0; i < n; i++ {
		if l.r.Intn(4) == 0 {
			cur = live[l.r.Intn(len(live))]
		}
		cnt := int(cur.seg.Count())
		if cnt == 0 {
			cur = live[l.r.Intn(len(live))]
			continue
		}
		d := l.r.Intn(cnt)
		if l.r.Intn(3) == 0 && len(plan) > 0 {
			// stay near the previous document (same or neighbouring chunk)
			d = (plan[len(plan)-1].D + l.r.Intn(5)) % cnt
		}
		plan = append(plan, DvWalkVisit{Sid: cur.sid, D: d, Reuse: l.r.Intn(8) != 0})
	}
	l.DvWalkScript(fs, plan)
}

// DvWalkScript executes the given visits (also used to re-run a recorded event).
func (l *Life) DvWalkScript(fs []string, plan []DvWalkVisit) {
	ev := EvDvWalk{Ev: "dvwalk", Fs: bs(fs), Visits: []DvWalkVisit{}}
	var st segment.DocVisitState
	func() {
		defer func() {
			if x := recover(); x != nil {
				ev.Err = fmt.Sprintf("panic: %v", x)
			}
		}()
		for _, pv := range plan {
			h := l.segs[pv.Sid]
			if h == nil || h.closed {
				continue
			}
			v := DvWalkVisit{Sid: pv.Sid, D: pv.D, Reuse: pv.Reuse, R: []ODvT{}}
			if !v.Reuse {
				st = nil
			}
			dvv, ok := h.seg.(segment.DocValueVisitable)
			if !ok {
				continue
			}
			var e error
			st, e = dvv.VisitDocValues(uint64(v.D), fs, func(field string, term []byte) {
				v.R = append(v.R, ODvT{F: B(field), T: append(B{}, term...)})
			}, st)
			if e != nil {
				ev.Err = e.Error()
				return
			}
			ev.Visits = append(ev.Visits, v)
		}
	}()
	l.tr.Emit(ev)
}

func (l *Life) live() []*hseg {
	r := []*hseg{}
	for _, s := range l.segs {
		if !s.closed {
			r = append(r, s)
		}
	}
	sort.Slice(r, func(i, j int) bool { return r[i].sid < r[j].sid })
	return r
}

func randDrop(r *rand.Rand, n int) Drop {
	switch x := r.Intn(10); {
	case x < 3:
		return Drop{Nil: true, Ds: Ints{}}
	case x < 4:
		return Drop{Ds: Ints{}}
	case x < 5:
		ds := Ints{}
		for d := 0; d < n; d++ {
			ds = append(ds, d)
		}
		return Drop{Ds: ds}
	default:
		ds := Ints{}
		p := 1 + r.Intn(3)
		for d := 0; d < n; d++ {
			if r.Intn(4) < p {
				ds = append(ds, d)
			}
		}
		return Drop{Ds: ds}
	}
}

var richModes = []int{1, 2, 3, 5, 1024, 1025, 1026, 1026}
var leanModes = []int{1024, 1025, 1026, 1026, 300}

// RandomScenario runs one random lifecycle scenario.
func (l *Life) RandomScenario(p *GenProfile, steps int, tag string) {
	lcms := []int{1, 2, 3, 7, 1024, 1024}
	if p.Lean {
		lcms = []int{1024, 1024, 512, 100}
	}
	l.Reset(lcms[l.r.Intn(len(lcms))], tag)
	modes := richModes
	if p.Lean {
		modes = leanModes
	}
	idBase := 0
	for s := 0; s < steps; s++ {
		live := l.live()
		op := l.r.Intn(12)
		if op >= 10 {
			l.DvWalk(6 + l.r.Intn(40))
			continue
		}
		switch {
		case len(live) == 0 || (op < 4 && len(live) < 5):
			base := idBase
			if p.DupIDs && l.r.Intn(3) == 0 {
				base = 0 // overlapping ids across batches (updates)
			}
			b := GenBatch(l.r, p, base)
			idBase += len(b)
			l.Build(b, modes[l.r.Intn(len(modes))])
		case op < 6:
			// persist + open one in-memory segment
			var mem []*hseg
			for _, h := range live {
				if h.mem {
					mem = append(mem, h)
				}
			}
			if len(mem) == 0 {
				continue
			}
			h := mem[l.r.Intn(len(mem))]
			k := l.Persist(h)
			if _, ok := l.files[k]; ok {
				l.Open(k)
			}
		case op < 9:
			cand := []*hseg{}
			for _, h := range live {
				if !h.zero {
					cand = append(cand, h)
				}
			}
			live = cand
			if len(live) == 0 {
				continue
			}
			n := 1 + l.r.Intn(3)
			if n > len(live) {
				n = len(live)
			}
			perm := l.r.Perm(len(live))[:n]
			ins := []*hseg{}
			drops := []Drop{}
			used := map[int]bool{}
			for _, i := range perm {
				// input domain: segments with vectors are not merged with their own copies (vector ids
				// must be unique across the inputs of a merge)
				overlap := false
				if p.Vec {
					for b := range live[i].lin {
						if used[b] {
							overlap = true
						}
					}
				}
				if overlap {
					continue
				}
				for b := range live[i].lin {
					used[b] = true
				}
				ins = append(ins, live[i])
				drops = append(drops, randDrop(l.r, live[i].ndocs))
			}
			if k, ok := l.Merge(ins, drops, modes[l.r.Intn(len(modes))]); ok {
				l.Open(k)
			}
		default:
			l.Close(live[l.r.Intn(len(live))])
		}
	}
	for _, h := range l.live() {
		l.Close(h)
	}
}

// LeanMergeScenario: three large lean segments (different term subsets), merged with drop patterns
// chosen so that per-term cardinalities move across the 1024-hit chunk rules, then merged again.
// VecChainScenario: an input that knows a vector field by name but has no index for it (a merged segment
// whose vector documents were all deleted) sits before, between and after inputs that do have vectors.
func (l *Life) VecChainScenario(tag string) {
	l.Reset(1024, tag)
	vdoc := func(id string, vec Ints, field string) Doc {
		d := Doc{ID: B(id), Fields: []FieldInst{IDField(B(id))}}
		if vec != nil {
			d.Fields = append(d.Fields, FieldInst{Name: B(field), Kind: KindVec, Vec: vec, Dims: 2})
		}
		d.Fields = append(d.Fields, FieldInst{Name: B("a"), Typ: int('t'), Len: 1, Toks: []Tok{{T: B("x"), Fr: 1, Locs: []Loc{}}}})
		d.Canon()
		return d
	}
	rv := func() Ints { return Ints{l.r.Intn(9) - 4, l.r.Intn(9) - 4} }
	a := l.Build([]Doc{vdoc("a0", rv(), "v2"), vdoc("a1", nil, "v2"), vdoc("a2", rv(), "v2")}, 1026)
	b := l.Build([]Doc{vdoc("b0", rv(), "v2"), vdoc("b1", rv(), "v2"), vdoc("b2", nil, "v2")}, 1026)
	c := l.Build([]Doc{vdoc("c0", nil, "v2"), vdoc("c1", rv(), "v2")}, 1026)
	if a == nil || b == nil || c == nil {
		return
	}
	none := Drop{Nil: true, Ds: Ints{}}
	// m: the vector documents of a are gone, the field name stays
	k, ok := l.Merge([]*hseg{a}, []Drop{{Ds: Ints{0, 2}}}, 1026)
	if !ok {
		return
	}
	m := l.Open(k)
	if m == nil || m.zero {
		return
	}
	for _, ins := range [][]*hseg{{m, b}, {b, m}, {b, m, c}, {m, c, b}} {
		drops := make([]Drop, len(ins))
		for i := range drops {
			drops[i] = none
			if l.r.Intn(3) == 0 {
				drops[i] = Drop{Ds: Ints{l.r.Intn(ins[i].ndocs)}}
			}
		}
		if k, ok := l.Merge(ins, drops, 1026); ok {
			if h := l.Open(k); h != nil {
				l.Close(h)
			}
		}
	}
	for _, h := range l.live() {
		l.Close(h)
	}
}

// SweepScenario: (a) the same small batch with a stored value of k incompressible bytes, k = 0..130, so that every
// section address, doc-value offset and length after the stored data runs through all residues modulo 128 (the
// varint boundaries); (b) the empty batch under fixed and cardinality-dependent chunk modes.  Each is built,
// persisted, re-opened and observed.
func (l *Life) SweepScenario(tag string) {
	l.Reset(1024, tag)
	for k := 0; k <= 130; k++ {
		mk := func(id string, pad int, toks ...string) Doc {
			d := Doc{ID: B(id), Fields: []FieldInst{IDField(B(id))}}
			f := FieldInst{Name: B("name"), Typ: int('t'), DV: true, Stored: true, Value: randBytes(l.r, pad), AP: Ints{}}
			for i, t := range toks {
				f.Toks = append(f.Toks, Tok{T: B(t), Fr: 1, Locs: []Loc{{P: i + 1, S: 4 * i, E: 4*i + 3, AP: Ints{}}}})
			}
			f.Len = len(toks)
			g := FieldInst{Name: B("tag"), Typ: int('t'), DV: true, Len: 1, Toks: []Tok{{T: B("x"), Fr: 1, Locs: []Loc{}}}}
			d.Fields = append(d.Fields, f, g)
			d.Canon()
			return d
		}
		h := l.Build([]Doc{mk("s0", k, "a", "b"), mk("s1", 0, "b")}, 1026)
		if h == nil {
			continue
		}
		kf := l.Persist(h)
		if l.files[kf] != nil {
			if o := l.Open(kf); o != nil {
				l.Close(o)
			}
		}
		l.Close(h)
	}
	for _, mode := range []int{1, 2, 1024, 1025, 1026} {
		h := l.Build([]Doc{}, mode)
		if h == nil {
			continue
		}
		kf := l.Persist(h)
		if l.files[kf] != nil {
			if o := l.Open(kf); o != nil {
				l.Close(o)
			}
		}
		l.Close(h)
	}
}

// LeanMultiScenario: more than 1024 documents with a multi-valued field in which a term occurs in both values of
// 600..800 documents: the number of (value, term) occurrences and the number of documents having the term lie on
// different sides of 1024, so whoever counts the wrong one picks another chunk size than the reader derives.
func (l *Life) LeanMultiScenario(tag string) {
	l.Reset(1024, tag)
	l.light = true
	n := 1100 + l.r.Intn(200)
	from := n - 600 - l.r.Intn(200)
	docs := make([]Doc, n)
	for i := range docs {
		id := B(fmt.Sprintf("m%05d", i))
		d := Doc{ID: id, Fields: []FieldInst{IDField(id)}}
		if i >= from {
			for v := 0; v < 2; v++ {
				d.Fields = append(d.Fields, FieldInst{Name: B("tag"), Typ: int('t'), AP: Ints{v}, Len: 2,
					Toks: []Tok{{T: B("t"), Fr: 1, Locs: []Loc{{P: 1, S: 0, E: 1, AP: Ints{v}}}}, {T: B(fmt.Sprintf("u%d", (i+v)%3)), Fr: 1, Locs: []Loc{}}}})
			}
		} else if i%4 == 0 {
			d.Fields = append(d.Fields, FieldInst{Name: B("tag"), Typ: int('t'), Len: 1, Toks: []Tok{{T: B("u0"), Fr: 1, Locs: []Loc{}}}})
		}
		d.Canon()
		docs[i] = d
	}
	for _, mode := range []int{1026, 1025} {
		h := l.Build(docs, mode)
		if h == nil {
			continue
		}
		if mode == 1026 {
			if k := l.Persist(h); l.files[k] != nil {
				if o := l.Open(k); o != nil {
					l.Close(o)
				}
			}
		}
		l.Close(h)
	}
}

// BoundsScenario: values at the boundaries of the variable-length encodings (127/128, 16383/16384, 2^21, 2^28) as
// frequencies, field lengths (norms), positions, offsets, array positions and stored sizes; terms of length 0, 1,
// 255, 256 and 4096; ids and field names that are prefixes of one another or contain a zero byte.  Built under two
// chunk modes, persisted, re-opened, merged with a deletion and merged again.
func (l *Life) BoundsScenario(tag string) {
	l.Reset(1024, tag)
	edge := []int{127, 128, 16383, 16384, 2097151, 2097152, 268435455, 268435456, 1, 0}
	pick := func() int { return edge[l.r.Intn(len(edge))] }
	long := func(n int, c byte) B {
		b := make(B, n)
		for i := range b {
			b[i] = c + byte(i%3)
		}
		return b
	}
	terms := []B{B{}, B("a"), long(255, 'k'), long(256, 'k'), long(4096, 'q'), B("a\x00"), B("ab")}
	names := []string{"f", "fa", "f\x00", "fab", "g"}
	ids := []string{"a", "ab", "abc", "b\x00", "b", "", "ab\x00"}
	mk := func(base int) []Doc {
		docs := []Doc{}
		for i, id := range ids {
			d := Doc{ID: B(id), Fields: []FieldInst{IDField(B(id))}}
			for j, name := range names {
				if (i+j+base)%3 == 0 {
					continue
				}
				fi := FieldInst{Name: B(name), Typ: []int{0, 255, 't', 'n'}[(i+j)%4], DV: j%2 == 0, Len: 1 + pick()}
				if (i+j)%2 == 0 {
					fi.Stored = true
					fi.Value = randBytes(l.r, []int{0, 1, 127, 128, 255, 256}[l.r.Intn(6)])
					fi.AP = Ints{pick(), pick()}
				}
				seen := map[string]bool{}
				for k := 0; k < 3; k++ {
					t := terms[l.r.Intn(len(terms))]
					if seen[string(t)] {
						continue
					}
					seen[string(t)] = true
					fr := []int{1, 2, 127, 128, 16383, 16384, 0}[l.r.Intn(7)]
					tok := Tok{T: t, Fr: fr, Locs: []Loc{}}
					if fr > 0 && l.r.Intn(3) != 0 {
						nl := 1 + l.r.Intn(2)
						if nl > fr {
							nl = fr
						}
						for x := 0; x < nl; x++ {
							st := pick()
							tok.Locs = append(tok.Locs, Loc{F: B{}, P: pick(), S: st, E: st + pick()%1000, AP: Ints{pick()}})
						}
					}
					fi.Toks = append(fi.Toks, tok)
				}
				d.Fields = append(d.Fields, fi)
			}
			d.Canon()
			docs = append(docs, d)
		}
		return docs
	}
	a := l.Build(mk(0), 1026)
	b := l.Build(mk(1), 2)
	if a == nil || b == nil {
		return
	}
	var oa *hseg
	if k := l.Persist(a); l.files[k] != nil {
		oa = l.Open(k)
	}
	if oa == nil {
		return
	}
	if k, ok := l.Merge([]*hseg{oa, b}, []Drop{{Ds: Ints{1}}, {Nil: true, Ds: Ints{}}}, 1026); ok {
		if m := l.Open(k); m != nil && !m.zero {
			if k2, ok := l.Merge([]*hseg{m}, []Drop{{Ds: Ints{0, m.ndocs - 1}}}, 3); ok {
				l.Open(k2)
			}
		}
	}
	for _, h := range l.live() {
		l.Close(h)
	}
}

// VecThresholdScenario: merges that leave 999, 1000 and 1001 vectors in a field (the merger switches from an
// exact to a clustered index at 1000 and sizes the clustering from the same count).
func (l *Life) VecThresholdScenario(tag string) {
	l.Reset(1024, tag)
	l.light = true
	mk := func(n, base int) []Doc {
		docs := make([]Doc, n)
		for i := range docs {
			id := B(fmt.Sprintf("t%05d", base+i))
			docs[i] = Doc{ID: id, Fields: []FieldInst{IDField(id), {Name: B("v2"), Kind: KindVec, Vec: Ints{l.r.Intn(61) - 30, l.r.Intn(61) - 30}, Dims: 2}}}
			docs[i].Canon()
		}
		return docs
	}
	a := l.Build(mk(505, 0), 1026)
	b := l.Build(mk(505, 1000), 1026)
	if a == nil || b == nil {
		return
	}
	first := func(k int) Drop {
		ds := Ints{}
		for d := 0; d < k; d++ {
			ds = append(ds, d)
		}
		return Drop{Ds: ds}
	}
	for _, cut := range [][2]int{{5, 5}, {5, 6}, {5, 4}} { // 1000, 999, 1001 survivors
		if k, ok := l.Merge([]*hseg{a, b}, []Drop{first(cut[0]), first(cut[1])}, 1026); ok {
			if h := l.Open(k); h != nil {
				l.Close(h)
			}
		}
	}
	for _, h := range l.live() {
		l.Close(h)
	}
}

// WideScenario: a segment with more than 128 fields goes through every writer and reader once: built,
// persisted, re-opened, merged with deletions (alone and with a second wide segment), merged again.
func (l *Life) WideScenario(p *GenProfile, tag string) {
	l.Reset(1024, tag)
	some := func(n int) Drop {
		ds := Ints{}
		for d := 0; d < n; d++ {
			if l.r.Intn(3) == 0 {
				ds = append(ds, d)
			}
		}
		if len(ds) == n && n > 0 {
			ds = ds[:n-1]
		}
		return Drop{Ds: ds}
	}
	a := l.Build(GenBatch(l.r, p, 0), 1026)
	if a == nil {
		return
	}
	var oa *hseg
	if k := l.Persist(a); l.files[k] != nil {
		oa = l.Open(k)
	}
	b := l.Build(GenBatch(l.r, p, 100), 1026)
	if oa != nil {
		if k, ok := l.Merge([]*hseg{oa}, []Drop{some(oa.ndocs)}, 1026); ok {
			if m := l.Open(k); m != nil && !m.zero && b != nil {
				if k2, ok := l.Merge([]*hseg{b, m}, []Drop{some(b.ndocs), some(m.ndocs)}, 1026); ok {
					l.Open(k2)
				}
			}
		}
	}
	for _, h := range l.live() {
		l.Close(h)
	}
}

func (l *Life) LeanMergeScenario(p *GenProfile, tag string) {
	lcms := []int{1024, 1024, 512}
	l.Reset(lcms[l.r.Intn(len(lcms))], tag)
	modes := []int{1025, 1026, 1026, 1024}
	var hs []*hseg
	idBase := 0
	for i := 0; i < 3; i++ {
		b := GenBatch(l.r, p, idBase)
		idBase += len(b)
		if h := l.Build(b, modes[l.r.Intn(len(modes))]); h != nil {
			hs = append(hs, h)
		}
	}
	if len(hs) < 2 {
		return
	}
	patterns := func(n int) Drop {
		switch l.r.Intn(5) {
		case 0:
			return Drop{Nil: true, Ds: Ints{}}
		case 1: // drop about half
			ds := Ints{}
			for d := 0; d < n; d++ {
				if l.r.Intn(2) == 0 {
					ds = append(ds, d)
				}
			}
			return Drop{Ds: ds}
		case 2: // keep a prefix
			ds := Ints{}
			for d := 200 + l.r.Intn(n/2); d < n; d++ {
				ds = append(ds, d)
			}
			return Drop{Ds: ds}
		case 3: // drop a tenth
			ds := Ints{}
			for d := 0; d < n; d++ {
				if l.r.Intn(10) == 0 {
					ds = append(ds, d)
				}
			}
			return Drop{Ds: ds}
		default: // keep few
			ds := Ints{}
			for d := 0; d < n; d++ {
				if l.r.Intn(20) != 0 {
					ds = append(ds, d)
				}
			}
			return Drop{Ds: ds}
		}
	}
	var merged []*hseg
	for m := 0; m < 2; m++ {
		perm := l.r.Perm(len(hs))
		n := 2 + l.r.Intn(len(hs)-1)
		ins := []*hseg{}
		drops := []Drop{}
		for _, i := range perm[:n] {
			ins = append(ins, hs[i])
			drops = append(drops, patterns(hs[i].ndocs))
		}
		if k, ok := l.Merge(ins, drops, modes[l.r.Intn(len(modes))]); ok {
			if h := l.Open(k); h != nil && !h.zero {
				merged = append(merged, h)
			}
		}
	}
	if len(merged) > 0 {
		// merge a merged segment again, together with a built one
		ins := []*hseg{merged[0], hs[l.r.Intn(len(hs))]}
		drops := []Drop{patterns(merged[0].ndocs), patterns(ins[1].ndocs)}
		if k, ok := l.Merge(ins, drops, modes[l.r.Intn(len(modes))]); ok {
			l.Open(k)
		}
	}
	for _, h := range l.live() {
		l.Close(h)
	}
}
