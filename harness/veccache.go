//go:build vectors && verif

package main

// C16: replay of VecCache walks (open / search / close-handle / expiry tick /
// segment close) on a real segment with the engine double; search results are
// compared with the expectations TLC emitted, engine counters (live, double
// closed, used after close) after every step.

import (
	"encoding/json"
	"fmt"
	"os"
	"sort"
	"sync"
	"sync/atomic"
	"time"

	faiss "github.com/blevesearch/go-faiss"
	segment "github.com/blevesearch/scorch_segment_api/v2"
	zap "github.com/blevesearch/zapx/v16"
)

type vcStep struct {
	Op     string    `json:"op"`
	H      int       `json:"h"`
	Ex     []int     `json:"ex"`
	Filter bool      `json:"filter"`
	K      int       `json:"k"`
	Elig   []int     `json:"elig"`
	Exp    []OVecHit `json:"exp"`
}

type vcWalk struct {
	Steps []vcStep `json:"steps"`
}

type vcTables struct {
	Batch []Doc `json:"batch"`
	Query []int `json:"query"`
}

type vcDiff struct {
	Walk vcWalk `json:"walk"`
	Kind string `json:"kind"`
	Step int    `json:"step"`
	What string `json:"what"`
	Got  string `json:"got"`
	Want string `json:"want"`
}

// quiesce waits until the asynchronous releases of native indexes have settled.
func quiesce() faiss.Stats {
	prev := faiss.VerifStats()
	stable := 0
	for i := 0; i < 20000 && stable < 2; i++ {
		time.Sleep(60 * time.Microsecond)
		cur := faiss.VerifStats()
		if cur.Closed == prev.Closed && cur.Live == prev.Live {
			stable++
		} else {
			stable = 0
		}
		prev = cur
	}
	return prev
}

// waitLive waits (bounded) for the asynchronous releases to bring the number of live indexes down to want.
func waitLive(want int) faiss.Stats {
	deadline := time.Now().Add(5 * time.Second)
	for {
		s := faiss.VerifStats()
		if s.Live <= want || time.Now().After(deadline) {
			return s
		}
		time.Sleep(50 * time.Microsecond)
	}
}

func sortHits(h []OVecHit) []OVecHit {
	r := append([]OVecHit{}, h...)
	sort.Slice(r, func(i, j int) bool {
		if r[i].S != r[j].S {
			return r[i].S < r[j].S
		}
		return r[i].D < r[j].D
	})
	return r
}

// scheduling gate of a vector cache lookup (verif hook between its two critical sections)
type vcGate struct{ reached, release chan struct{} }
type vcOpened struct {
	vi  segment.VectorIndex
	err error
}
type vcPending struct {
	g    *vcGate
	done chan vcOpened
}

var curGate atomic.Pointer[vcGate]

func runVecCache(walksPath, tablesPath, dir, outPath string, stress int) {
	var tb vcTables
	raw, err := os.ReadFile(tablesPath)
	if err != nil {
		fatal2("%v", err)
	}
	if err := json.Unmarshal(raw, &tb); err != nil {
		fatal2("tables: %v", err)
	}
	for i := range tb.Batch {
		tb.Batch[i].Canon()
	}
	plugin := &zap.ZapPlugin{}
	zap.DefaultChunkMode = 1026
	zap.VerifVecCacheSetMonitorFreq(time.Hour) // the timer is parked: expiry passes are explicit events
	zap.VerifVecCacheGate = func() {
		if g := curGate.Swap(nil); g != nil {
			close(g.reached)
			<-g.release
		}
	}
	gated := 0
	q := make([]float32, len(tb.Query))
	for i, x := range tb.Query {
		q[i] = float32(x)
	}
	var diffs []vcDiff
	nw, nsteps, evictions := 0, 0, 0
	newSeg := func(kind string) segment.Segment {
		seg, _, err := plugin.New(MakeDocs(tb.Batch))
		if err != nil {
			fatal2("veccache setup: %v", err)
		}
		if kind == "mem" {
			return seg
		}
		path := dir + "/vc.zap"
		os.Remove(path)
		if err := seg.(segment.UnpersistedSegment).Persist(path); err != nil {
			fatal2("veccache setup: %v", err)
		}
		seg.Close()
		ms, err := plugin.Open(path)
		if err != nil {
			fatal2("veccache setup: %v", err)
		}
		return ms
	}
	search := func(vi segment.VectorIndex, st *vcStep) ([]OVecHit, error) {
		var pl segment.VecPostingsList
		var err error
		if st.Filter {
			el := make([]uint64, len(st.Elig))
			for i, d := range st.Elig {
				el[i] = uint64(d)
			}
			pl, err = vi.SearchWithFilter(q, int64(st.K), el, nil)
		} else {
			pl, err = vi.Search(q, int64(st.K), nil)
		}
		if err != nil {
			return nil, err
		}
		hits := []OVecHit{}
		it := pl.Iterator(nil)
		for {
			vp, e := it.Next()
			if e != nil {
				return hits, e
			}
			if vp == nil {
				break
			}
			hits = append(hits, OVecHit{D: int(vp.Number()), S: int(vp.Score())})
		}
		return hits, nil
	}
	forEachLine(walksPath, func(line []byte) {
		var w vcWalk
		if err := json.Unmarshal(line, &w); err != nil {
			fatal2("walk: %v", err)
		}
		if len(diffs) >= 10 {
			return // enough evidence; do not spend the bounded waits on thousands of further walks
		}
		kind := []string{"mem", "mmap"}[nw%2]
		nilEx := nw%4 < 2 // an empty exclusion set is passed as nil or as an empty bitmap
		nw++
		faiss.VerifReset()
		base := faiss.VerifStats().Live
		seg := newSeg(kind)
		segOpen := true
		handles := map[int]segment.VectorIndex{}
		pend := map[int]*vcPending{}
		diff := func(i int, what string, got, want interface{}) {
			diffs = append(diffs, vcDiff{Walk: w, Kind: kind, Step: i, What: what, Got: js(got), Want: js(want)})
		}
		func() {
			defer func() {
				if x := recover(); x != nil {
					diff(-1, "panic", fmt.Sprint(x), nil)
				}
			}()
			for i := range w.Steps {
				st := &w.Steps[i]
				nsteps++
				switch st.Op {
				case "openslow":
					// second critical section of a lookup that missed: let the parked searcher go on
					if p := pend[st.H]; p != nil {
						delete(pend, st.H)
						close(p.g.release)
						r := <-p.done
						if r.err != nil {
							diff(i, "InterpretVectorIndex", r.err.Error(), nil)
							return
						}
						handles[st.H] = r.vi
					}
				case "open", "openmiss":
					ex := bmOf(st.Ex)
					if len(st.Ex) == 0 && nilEx {
						ex = nil
					} else if ex == nil {
						ex = bmOf([]int{})
					}
					if st.Op == "openmiss" {
						// the lookup runs in its own goroutine and parks at the scheduling point between its two
						// critical sections (if the real cache has the entry it simply completes: the model's
						// eviction is a may, not a must)
						g := &vcGate{reached: make(chan struct{}), release: make(chan struct{})}
						done := make(chan vcOpened, 1)
						curGate.Store(g)
						go func(filter bool) {
							var r vcOpened
							defer func() {
								if x := recover(); x != nil {
									r.err = fmt.Errorf("panic: %v", x)
								}
								done <- r
							}()
							r.vi, r.err = seg.(segment.VectorSegment).InterpretVectorIndex("v", filter, ex)
						}(st.Filter)
						select {
						case <-g.reached:
							pend[st.H] = &vcPending{g: g, done: done}
							gated++
						case r := <-done:
							curGate.Store(nil)
							if r.err != nil {
								diff(i, "InterpretVectorIndex", r.err.Error(), nil)
								return
							}
							handles[st.H] = r.vi
						}
						break
					}
					vi, err := seg.(segment.VectorSegment).InterpretVectorIndex("v", st.Filter, ex)
					if err != nil {
						diff(i, "InterpretVectorIndex", err.Error(), nil)
						return
					}
					handles[st.H] = vi
				case "search":
					got, err := search(handles[st.H], st)
					if err != nil {
						diff(i, "search error", err.Error(), nil)
						return
					}
					if js(sortHits(got)) != js(sortHits(st.Exp)) {
						diff(i, "search result", sortHits(got), sortHits(st.Exp))
					}
				case "close":
					handles[st.H].Close()
					delete(handles, st.H)
				case "tick":
					_, before := zap.VerifVecCacheRefs(seg, "v")
					// one tick of the walk = one, three or eight expiry passes (the moving average needs idle
					// passes before an entry expires - eight always suffice for up to three hits -; the model
					// allows both the evicting and the non-evicting outcome)
					for pass := 0; pass < []int{1, 3, 8}[(nw+i)%3]; pass++ {
						zap.VerifVecCacheTick(seg)
					}
					_, after := zap.VerifVecCacheRefs(seg, "v")
					if before && !after {
						evictions++
					}
					quiesce()
				case "segclose":
					if err := seg.Close(); err != nil {
						diff(i, "segment close", err.Error(), nil)
					}
					segOpen = false
					quiesce()
				}
				s := faiss.VerifStats()
				if s.UsedAfterFree > 0 {
					diff(i, "native index used after it was released", s.UsedAfterFree, 0)
					return
				}
				if s.DoubleClosed > 0 {
					diff(i, "native index released twice", s.DoubleClosed, 0)
					return
				}
			}
		}()
		for h, p := range pend {
			close(p.g.release)
			if r := <-p.done; r.err == nil && r.vi != nil {
				handles[h] = r.vi
			}
		}
		curGate.Store(nil)
		for _, vi := range handles {
			vi.Close()
		}
		if segOpen {
			seg.Close()
		}
		s := waitLive(base)
		if s.Live != base {
			diff(len(w.Steps), "native indexes left after the segment was closed", s.Live-base, 0)
		}
		if s.DoubleClosed > 0 || s.UsedAfterFree > 0 {
			diff(len(w.Steps), "native index released twice / used after release (end of walk)", fmt.Sprint(s.DoubleClosed, s.UsedAfterFree), 0)
		}
	})
	// concurrent searchers with the real expiry monitor running fast
	if stress > 0 {
		zap.VerifVecCacheSetMonitorFreq(time.Millisecond)
		quiesce()
		faiss.VerifReset()
		base := faiss.VerifStats().Live
		for round := 0; round < stress; round++ {
			seg := newSeg([]string{"mem", "mmap"}[round%2])
			var wg sync.WaitGroup
			var mu sync.Mutex
			for g := 0; g < 6; g++ {
				wg.Add(1)
				go func(g int) {
					defer wg.Done()
					for k := 0; k < 40; k++ {
						st := &vcStep{Filter: (g+k)%2 == 0, K: 3, Elig: []int{0, 1, 2}}
						ex := []int{}
						if (g+k)%3 == 0 {
							ex = []int{1}
						}
						vi, err := seg.(segment.VectorSegment).InterpretVectorIndex("v", st.Filter, bmOf(ex))
						if err != nil {
							continue
						}
						got, err := search(vi, st)
						want := 3 // five vectors in four documents: an unfiltered search always finds three
						if st.Filter {
							want = 3 - len(ex) // one vector each in the eligible documents 0, 1, 2
						}
						if err != nil || len(got) != want {
							mu.Lock()
							diffs = append(diffs, vcDiff{Step: -2, What: "concurrent search result", Got: js(got), Want: fmt.Sprint(want, " hits")})
							mu.Unlock()
						}
						for _, h := range got {
							for _, e := range ex {
								if h.D == e {
									mu.Lock()
									diffs = append(diffs, vcDiff{Step: -2, What: "concurrent search returned an excluded document", Got: js(got)})
									mu.Unlock()
								}
							}
						}
						if k%7 == 0 {
							time.Sleep(2 * time.Millisecond) // let the monitor find the entry idle
						}
						vi.Close()
					}
				}(g)
			}
			wg.Wait()
			time.Sleep(5 * time.Millisecond)
			seg.Close()
		}
		s := waitLive(base)
		if s.Live != base || s.DoubleClosed > 0 || s.UsedAfterFree > 0 {
			diffs = append(diffs, vcDiff{Step: -2, What: "engine counters after concurrent searches", Got: js(s), Want: "no live index, no double release, no use after release"})
		}
		zap.VerifVecCacheSetMonitorFreq(time.Hour)
	}
	tr := NewTracer(outPath)
	for i, d := range diffs {
		if i < 200 {
			tr.Emit(d)
		}
	}
	tr.Close()
	fmt.Printf("walks=%d steps=%d evictions=%d gated=%d stress_rounds=%d diffs=%d\n", nw, nsteps, evictions, gated, stress, len(diffs))
}
