#!/usr/bin/env python3
"""Writes MANIFEST.json from the table below (single source for the interface)."""
import json, os

ROOT = os.path.dirname(os.path.dirname(os.path.abspath(__file__)))

LIFE_NOTE = ("Trusted: TLC and the CommunityModules Json reader; the harness's projection (public API calls only) and "
             "document stubs; Go stdlib crc32 for large files. Inputs stay in the domain listed in DESIGN 7. "
             "Exhaustive only for the stated small scopes; rich inputs are seeded samples.")

CHECKS = {
    "C01": dict(design="4 C01", technique="TLA+ spec (ZapData/Zapx) + TLC; TLC-generated walks replayed into the code; recorded traces validated by TLC (TraceLife)",
                text="TLC checks Zapx over the catalogue (Life.tla: invariants on every reachable state, every edge emitted as a walk); sampled walks are replayed through ZapPlugin.New and seeded rich / 1100-2200 document batches are built under chunk modes 1..1026; every build is logged with the complete observation (every field x term x hit x location, absent probes) and TLC recomputes each answer from the logged batch with ZapData's operators. Conformance of the real code to the specification on every step, not sampled assertions."),
    "C02": dict(design="4 C02", technique="TLA+ spec + TLC walks replayed + TLC trace validation (TraceLife)",
                text="Same pipeline as C01 with stored-field heavy batches (repeated names, empty and >64KiB values, array positions of any length): StoredOf/DocIDOf/DocNumbersOf/FieldsOf/Count of ZapData are evaluated by TLC against full visits, visits stopped after each k callbacks, DocID, DocNumbers for present/absent/above-max ids and document numbers beyond Count."),
    "C04": dict(design="4 C04", technique="TLA+ spec + TLC walks replayed + TLC trace validation (TraceLife: Persist/Open actions)",
                text="Every segment of the generators is persisted (Persist and WriteTo, byte equality), re-opened and observed completely; TLC validates the opened observation against the content the Persist action stored in the specification's file state, plus footer fields (count, chunk mode, version) and CRC."),
    "C05": dict(design="4 C05", technique="TLA+ spec (merge law in ZapData) + TLC walks replayed + TLC trace validation",
                text="Life.tla enumerates every ordered input list x every drop set (nil / empty / partial / full) over small segments (built, opened, merged) and the walks are replayed through ZapPlugin.Merge; random chains on rich and 2000-document segments. TLC compares returned maps with MergedMaps, size with file length, and the re-opened result's Count/Fields/stored/DocID/DocNumbers with MergedContent."),
    "C06": dict(design="4 C06", technique="TLA+ spec (merge law) + TLC walks replayed + TLC trace validation",
                text="Same generator as C05 with longer merge chains and all chunk modes; TLC compares dictionaries, every postings list (freq, norm, locations with source fields) and doc values of the re-opened merged segment with the observation functions of the survivors' content."),
}

CHECKS["C07"] = dict(design="4 C07", technique="TLA+ spec (PostIter) exhaustively explored by TLC; every maximal call sequence replayed on real iterators",
    note="Trusted: TLC; the harness's comparison of returned postings with the tables TLC emitted. Advance targets obey the interface contract; ReplaceActual only on iterators exposing an actual bitmap, before the first call.",
    text="TLC enumerates every postings set P and exclusion set E over N documents (4 quick / 5 thorough) and every Next/Advance sequence of length L (3 / 4), checks IterSound and NextOnlyComplete, and emits each maximal call sequence with the expected returns and the expected hit details (ZapData's PostingsOf). The harness executes every sequence on real iterators for built, mmap-opened and merged (single-hit) segments x chunk sizes {1,2,3,N} x detail-flag combinations x access variants (exclusion bitmap, empty bitmap, ReplaceActual, preallocated list/iterator reused from another term or field), comparing doc numbers, freq, norm, locations, Count, ActualBitmap and DocNum1Hit. Bounded-exhaustive, as the property's quantifier asks.")

CHECKS["C03"] = dict(design="4 C03", technique="TLA+ spec (DvVisit: declarative + operational visit state, checked by TLC) with every visit sequence replayed; plus TLC validation of recorded random visit orders (TraceLife dvwalk)",
    text="TLC explores DvVisit.tla: every sequence of L visits (3 quick / 4 thorough) over two segments x 4 documents with or without state reuse, for chunk sizes {1,2,3}, checking on every state that the operational visit-state model (current chunk, cached chunk, reset on segment change) returns the declarative answer (DvAnyOrder). Every sequence is replayed on real segments for doc-value chunk sizes {1,2,3,1024} and every provenance pair {mem, mmap, merged}. In addition the lifecycle traces carry random-order visits with one reused state across live segments (up to 2200 documents, default chunk 1024) and complete ascending visits, all validated by TLC against DvOf; VisitableDocValueFields is compared with the batch's doc-value fields.")
CHECKS["C08"] = dict(design="4 C08", technique="TLA+ spec (DictIter: declarative + operational scratch-list model) exhaustively explored by TLC; every query replayed on real dictionaries",
    note="Trusted: TLC; trie DFA construction in the harness; vellum's regexp/levenshtein automata only as alternative realisations of an acceptance set whose denotation is evaluated by running them.",
    text="TLC enumerates every term set (<=3 of 5 quick / <=4 of 6 thorough catalogue terms incl. empty, prefix pairs, NUL and non-ASCII) x every acceptance subset x every well-formed key range over 10 bounds, checks EnumExact (operational counts with the reused scratch postings list equal the true counts for every mixture of single-hit and general entries; the original, unrepaired design is refuted by the same invariant on every run) and emits the expected entries. Each query is executed on real dictionaries of built, re-opened, merged and twice-merged segments with trie DFAs, decoy-accepting DFAs, nil and vellum regexp/Levenshtein automata of equal denotation; Contains and Cardinality are compared per dictionary.")

CHECKS["C07"]["text"] += " A second stage validates with TLC (TraceLife) every postings probe of the lifecycle traces a second time through one postings list and one iterator that are reused from probe to probe across terms, fields and segments of random rich batches (prealloc-reuse histories)."
CHECKS["C07"]["technique"] = "TLA+ spec (PostIter) exhaustively explored by TLC, every maximal call sequence replayed on real iterators; TLC trace validation of prealloc-reuse probes (TraceLife)"
CHECKS["C12"] = dict(design="4 C12/C13", technique="TLA+ spec (ThesTermsOf/SynonymsOf in ZapData) + TLC walks over synonym catalogue documents replayed + TLC trace validation",
    text="Life.tla over catalogue documents with two thesauri (shared synonyms, the same term defined by two documents) and seeded batches mixing ordinary and synonym documents; every build and re-open is observed completely: thesaurus term enumeration, Contains, SynonymsList for every left-hand term x exclusion bitmaps (nil, empty, random, full), each probe fresh and through reused list/iterator objects, unknown thesauri/terms, ordinary fields probed as thesauri and synonym fields probed as dictionaries. TLC recomputes each answer from the logged batch.")
CHECKS["C13"] = dict(design="4 C12/C13", technique="TLA+ spec (merge law over synonym triples) + TLC walks replayed + TLC trace validation",
    text="As C12 for merged segments: Life.tla enumerates merges of segments with and without thesauri under every drop set; random merge chains (syn profile); TLC compares every thesaurus of the re-opened merged segment with SynonymsOf of the survivors' content under the new numbering.")

CHECKS["C10"] = dict(design="4 C10", technique="TLA+ spec (BuildPool: pooled builder residues) explored by TLC, every build history replayed in one process with the collector parked; concurrent builds under the race detector; every segment validated by TLC against its own batch (TraceLife)",
    text="BuildPool.tla enumerates every history of <=3 (quick) / <=4 (thorough) builds over batch shapes {empty, id-only, big with many fields/terms/locations/doc values, small with the same field but no doc values, synonym, mixed, rejected by the field validator after the builder was filled} plus pool-emptying collections, checks BuildIndependent, and emits the histories; the harness replays each in one process with GC disabled (the hook VerifBuilderResidue logs what the pooled builder carries over, so inheritance is evidence), followed by seeded shape sequences on generated batches and 6 goroutines building concurrently under -race. Every resulting segment is observed completely and validated by TLC against the specification of its own batch; a failed build must be explained by a rejected batch.")
CHECKS["C11"] = dict(design="4 C11", technique="TLA+ spec (CtxPool: multi-process pool protocol) model-checked by TLC for every interleaving; every schedule replayed with parked visitors and pool snapshots (verif hook); concurrent readers under the race detector validated by TLC (TraceLife)",
    note="Trusted: TLC; Go's race detector as dynamic monitor of the data-race clause on the schedules that ran; the pool snapshot hook (GOMAXPROCS(1), collector parked). A duplicate in a snapshot is sound evidence of a double Put; a missing object is never evidence.",
    text="CtxPool.tla models Get / callback / Put of VisitStoredFields (visitors may park in any callback or stop early), DocID and the stored-field phase of a cancelled merge for 2 (quick) / 3 (thorough) goroutines; TLC checks Exclusive (one owner per scratch object, never twice in the pool) on every interleaving and refutes the original double-Put design on every run. Every distinct schedule is replayed on the real code with visitors parked at the callbacks: after each step the pool is snapshotted through the verif hook (no object twice), callback values are compared with StoredOf, bytes handed to a parked visitor are hashed before parking and after resuming. Then 8 goroutines make complete observations of shared built / opened / merged segments (each starting with an early-stopped visit) while merges use the segments as inputs, under -race; every observation is validated by TLC against the sequential answer.")
CHECKS["C20"] = dict(design="4 C20", technique="TLA+ spec (RefCount, holders as processes) model-checked by TLC; every behaviour that releases the last reference replayed on a real mmap-opened file with /proc inspection; concurrent holders under the race detector",
    note="Trusted: TLC; /proc/self/maps and /proc/self/fd; Go's race detector for the unlocked-counter clause on the schedules that ran. Holders use the API balanced (only while owning a reference).",
    text="RefCount.tla models refs / mapping / descriptor with AddRef, DecRef, Close, read and hand-over between 2 (quick) / 3 (thorough) holders; TLC checks RefSafe (mapped and descriptor open iff refs > 0, unmapped at most once, last release without error, every owner finds the mapping) over all interleavings up to 6 / 8 operations and emits every behaviour that ends with the last release. Each is replayed on a fresh copy of a real segment file: after every operation /proc/self/maps and /proc/self/fd are inspected (exactly one mapping and descriptor while references remain, none afterwards), a complete read is compared with the tables TLC emitted, and the last release must return nil. Closing an in-memory segment must return nil. Concurrent holders and readers run under -race.")
OUT_NOTE = "Trusted: TLC; RLIMIT_FSIZE fault injection (partial write then EFBIG at the exact offset); the verif poll hook; fsync/close failures cannot be injected. The footer is taken to be 8 checked writes of 5x8+3x4 bytes (documented layout)."
CHECKS["C17"] = dict(design="4 C17", technique="TLA+ spec (OutFile: buffered writer with sticky error, checked/unchecked writes, flush/sync/close/cleanup) model-checked by TLC; real operations run under write faults at byte offsets, every outcome validated by TLC against the model run on the recorded program (TraceOut)",
    note=OUT_NOTE,
    text="OutFile.tla is checked exhaustively over all small programs x buffer capacities x fault offsets (OkMeansComplete, ErrMeansNoFile, FaultSurfaces: a fault inside the output is reported whether or not the write that hits it is checked). For real Persist, WriteTo and Merge runs the harness records the fault-free step sequence (merge writes via the statistics callback) as the program, then injects a write fault at every byte offset (outputs up to 700 bytes quick / 4000 thorough; beyond that every flush boundary +-1, the footer, first/last bytes and 64 seeded offsets) with merge buffers of 16 / 64 bytes / 1 MiB; TLC runs the same deterministic step function on the recorded program and the injected plan and compares result, file existence and - on success - completeness (length, CRC-32, re-open, count).")
CHECKS["C18"] = dict(design="4 C18", technique="TLA+ spec (OutFile with poll steps) model-checked by TLC; real merges cancelled at every poll (verif hook), before the call, from write callbacks and asynchronously; outcomes validated by TLC (TraceOut)",
    note=OUT_NOTE,
    text="Same model with polls of the close channel (CancelSurfaces). Real merges (ordinary, synonym, rich, and without survivors) are cancelled at the j-th poll for every j the fault-free run performs (and one beyond), with the channel closed before the call, from inside the i-th write callback (validated against that run's own recorded step sequence, since the section order varies), by another goroutine after random delays (TLC accepts exactly: closed error and no file, or success with a complete file), and combined with a write fault. A merge program must begin with a poll.")
VEC_NOTE = "Native FAISS is absent from the sandbox: zapx is compiled with -tags vectors against a pure-Go engine double with the go-faiss API (fakefaiss/), which is part of the trusted base; nothing is claimed about FAISS itself or its index bytes. Vector ids are unique across the inputs of a merge (a segment is not merged with a copy of itself). Trusted: TLC."
CHECKS["C14"] = dict(design="4 C14/C15", technique="TLA+ spec (FieldVecs/TopKOK in ZapData) + TLC walks over vector catalogue documents replayed + TLC trace validation, engine double",
    note=VEC_NOTE,
    text="Built and re-opened segments with vector fields (0..3 integer vectors per document, multi-vector fields, duplicates across documents, L2 / dot-product / cosine) are searched with queries taken from the data and random ones, k in {0,1,2,n,n+1}, exclusion bitmaps (nil, empty, random), filtered searches with eligible sets (empty, all, partial, overlapping the exclusion), wrong dimension, fields without vectors; TLC checks TopKOK on every answer (true scores computed from the logged batch, no excluded or ineligible document, at most k, exactly the k best modulo ties for exact indexes) and the num_vectors statistic.")
CHECKS["C15"] = dict(design="4 C14/C15", technique="TLA+ spec (merge law over vectors) + TLC walks replayed + TLC trace validation, engine double",
    note=VEC_NOTE,
    text="As C14 for merged segments: Life.tla enumerates merges of vector segments under every drop set (fields present in some inputs only, inputs whose vectors are all deleted), random merge chains; TLC checks TopKOK and num_vectors of the re-opened merged segment against the survivors' content under the new numbering.")
CHECKS["C16"] = dict(design="4 C16", technique="TLA+ spec (VecCache) model-checked by TLC; every edge of its state graph replayed on the real cache through the synchronous expiry hook with engine-side counters; concurrent searchers with the real monitor under the race detector",
    note=VEC_NOTE + " Handles are closed before the segment; eviction is allowed but never required.",
    text="VecCache.tla models cache entry (generation, references, ageing), handles with their own exclusion bitmaps, the engine's live set, asynchronous releases and segment close; TLC checks HandleSafe, ClosedOnce, NoLeak and RefsExact over all sequences of open(except, filtered) / search / close-handle / expiry tick / segment close up to 5 (quick) / 7 (thorough) steps for every pair of exclusion bitmaps, and emits every edge as a walk with the expected search results (TopKOK-checked). The harness replays the walks through InterpretVectorIndex / Search / SearchWithFilter / Close, VerifVecCacheTick and Segment.Close on in-memory and mmap segments, comparing results and the double's counters (used after release, released twice, live after close with a bounded wait) after every step; then 6 goroutines search concurrently with the monitor at 1 ms under -race.")
CHECKS["C19"] = dict(design="4 C19", technique="TLA+ spec (OutFile with engine-call steps: EngineSurfaces, ErrMeansNoFile; TraceLife TrEngFail) + failure plans enumerated from the engine double's call log, executed on the real build / merge, validated by TLC",
    note=VEC_NOTE + " Only failures reported through the go-faiss API can be injected.",
    text="For flat and clustered (>= 1000 vectors: SetDirectMap, Train) scenarios the fault-free build and merge are run once and the double's call log gives, per engine operation (IndexFactory, SetDirectMap, Train, AddWithIDs, WriteIndexIntoBuffer, ReadIndexFromBuffer, ReconstructBatch), every n that occurs; each n-th call is made to fail in turn. TLC requires for every plan: an error is returned, no file is left, the double's live-index count returns to its baseline (bounded wait); an operation that reports success is validated completely (vector search answers of the result against TopKOK), so silently missing vectors are a mismatch. OutFile.tla's engine-call steps are model-checked (EngineSurfaces).")
CHECKS["C09"] = dict(design="4 C09", technique="TLA+ spec of the byte layout (ZapLayout: a decoder written in TLA+) evaluated by TLC on the files the code writes; frozen corpus of files of the pinned release re-read by the current code and validated by TLC (TraceLife)",
    note="Trusted: TLC; the leaf decoders for the three embedded third-party formats (vellum FST, roaring, snappy), which use those libraries themselves; files of the vectors build contain the engine double's index bytes, so nothing is claimed about FAISS index blobs. The corpus was written by the pinned release (HEAD of /repo when the corpus was generated; the fix commits do not touch the format).",
    text="(a) Every file up to 2 KB (quick) / 30 KB (thorough) written by Persist and Merge during the run (catalogue walks, mergey / synonym / rich scenarios) is decoded by ZapLayout.tla under TLC - footer at fixed positions, CRC-32 recomputed in TLA+, sections index, field table, inverted record, FST values incl. single-hit encoding, postings records, chunked freq/norm and location streams with the specification's own chunk rule, stored index and records, doc-value chunks and trailer, thesaurus blocks and id tables - and the decoded dictionaries, postings, stored fields, doc values and synonyms must equal ZapData's observation functions of the content that went in. (b) Ten files written by the pinned release (rich, synonym, and 2200-document files whose terms have exactly 1023/1024/1025/2047/2048/2049 hits under chunk modes 1026, 1025 and 1024, plus merged files) are opened by the current code on every run and their complete observations validated by TLC against the recorded inputs: a consistent writer+reader change of what the bytes mean is caught by (a) or (b).")
HOOK_COMMITS = ["f76ac2a", "d66d9b6"]

NA = {}
for i in range(1, 21):
    pid = "C%02d" % i
    if pid not in CHECKS:
        NA[pid] = "check not built yet (framework under construction; see DESIGN 11 for the order of work)"


def main():
    checks = []
    for pid in sorted(CHECKS):
        c = CHECKS[pid]
        checks.append({
            "property_id": pid,
            "quick_cmd": "bin/check %s --tier quick" % pid,
            "thorough_cmd": "bin/check %s --tier thorough" % pid,
            "evidence_file": "evidence/%s.json" % pid,
            "replay_cmd_template": "bin/check %s --replay {path}" % pid,
            "engine": c.get("engine", "tlc+harness"),
            "level_claimed": {"category": "model_checking", "text": c["text"], "design_ref": "DESIGN.md " + c["design"]},
            "level_note": c.get("note", LIFE_NOTE),
            "technique": c["technique"],
        })
    m = {
        "version": 1,
        "setup_cmd": "bin/setup",
        "hooks": {
            "guard": "verif",
            "enable": "go build -tags verif (and -tags verif,vectors with the engine double) of /verif/harness, which replaces github.com/blevesearch/zapx/v16 by /repo",
            "baseline_off_cmd": "cd /repo && GOFLAGS=-mod=mod GOPROXY=off GOSUMDB=off go test -vet=off -count=1 ./...",
            "source_commits": HOOK_COMMITS,
            "add_only": True,
        },
        "engines": [
            {"name": "tlc+harness", "path": "bin/check", "serves_properties": sorted(CHECKS),
             "kind_free_text": "TLA+ specification in spec/, model-checked and used as trace oracle by TLC; Go harness in harness/ replays TLC behaviours into zapx and records traces"},
        ],
        "checks": checks,
        "not_applicable": [{"property_id": p, "reason": NA[p]} for p in sorted(NA)],
        "notes": "All verdicts come from executions of the real code that the TLA+ specification rejects; exit 2 = inconclusive. Known findings: known_findings.json.",
    }
    with open(os.path.join(ROOT, "MANIFEST.json"), "w") as fh:
        json.dump(m, fh, indent=1)
        fh.write("\n")


main()
