"""Shared machinery of the zapx checks: building the harness, running TLC,
parsing what TLC prints, classifying mismatches, evidence and verdicts.

Exit codes: 0 = property held on everything explored; 1 = violation (printed as
`VIOLATION property=<id> replay=<path>`); 2 = inconclusive (infrastructure)."""
import json, os, re, shutil, subprocess, sys, tempfile, time, random, hashlib

ROOT = os.path.dirname(os.path.dirname(os.path.abspath(__file__)))
SPEC = os.path.join(ROOT, "spec")
HARNESS = os.path.join(ROOT, "harness")
BUILD = os.path.join(ROOT, ".build")
OUT = os.path.join(ROOT, "out")
EVID = os.environ.get("VERIF_EVID", os.path.join(ROOT, "evidence"))  # VERIF_EVID: private evidence dir for mutation runs
REPO = os.environ.get("VERIF_REPO", "/repo")  # alternative tree (scratch worktrees for mutation testing)

GOENV = dict(os.environ, GOFLAGS="-mod=mod", GOPROXY="off", GOSUMDB="off", GOTOOLCHAIN="local",
             GOCACHE=os.environ.get("GOCACHE", os.path.join(BUILD, "gocache")))


class Inconclusive(Exception):
    pass


def log(*a):
    print(*a, flush=True)


def seed_of():
    try:
        return int(os.environ.get("VERIF_SEED", "1"))
    except ValueError:
        return 1


def run(cmd, env=None, cwd=None, timeout=None, stdout=None):
    return subprocess.run(cmd, env=env, cwd=cwd, timeout=timeout, stdout=stdout,
                          stderr=subprocess.STDOUT if stdout is not None else None)


def build_harness(tags=("verif",), race=False):
    """go build of the harness against the current working tree of /repo."""
    os.makedirs(BUILD, exist_ok=True)
    name = "zx-" + "-".join(tags) + ("-race" if race else "")
    hdir = HARNESS
    if REPO != "/repo":
        # same harness sources, module replaced by the alternative tree
        tag = hashlib.md5(REPO.encode()).hexdigest()[:8]
        name += "-" + tag
        hdir = os.path.join(BUILD, "h-" + tag)
        shutil.rmtree(hdir, ignore_errors=True)
        shutil.copytree(HARNESS, hdir)
        gm = open(os.path.join(hdir, "go.mod")).read().replace("=> /repo", "=> " + REPO).replace("../fakefaiss", os.path.join(ROOT, "fakefaiss"))
        open(os.path.join(hdir, "go.mod"), "w").write(gm)
    out = os.path.join(BUILD, name)
    cmd = ["go", "build", "-tags", ",".join(tags), "-o", out]
    if race:
        cmd.insert(2, "-race")
    cmd.append(".")
    t0 = time.time()
    p = subprocess.run(cmd, cwd=hdir, env=GOENV, stdout=subprocess.PIPE, stderr=subprocess.STDOUT, text=True)
    if p.returncode != 0:
        raise Inconclusive("harness build failed (tags=%s):\n%s" % (tags, p.stdout[-4000:]))
    log("built %s in %.1fs" % (name, time.time() - t0))
    return out


class Scratch:
    def __init__(self):
        self.dir = tempfile.mkdtemp(prefix="vf-")

    def path(self, *a):
        return os.path.join(self.dir, *a)

    def close(self):
        if os.environ.get("VERIF_KEEP"):
            log("scratch kept: " + self.dir)
            return
        shutil.rmtree(self.dir, ignore_errors=True)


SUMMARY_RE = re.compile(r"(\d+) states generated, (\d+) distinct states found")


def tlc(scratch, module, cfg=None, env=None, workers=1, timeout=600, extra=(), simulate=None, outname=None):
    """Runs TLC on spec/<module>.tla inside the scratch directory; returns (path of output, stats)."""
    sdir = scratch.path("spec")
    if not os.path.isdir(sdir):
        shutil.copytree(SPEC, sdir)
    outname = outname or (module + "." + (cfg or "default") + ".out")
    outp = scratch.path(outname)
    md = tempfile.mkdtemp(prefix="md-", dir=scratch.dir)
    cmd = ["timeout", str(timeout), "tlc", "-workers", str(workers), "-metadir", md]
    if cfg:
        cmd += ["-config", cfg]
    if simulate:
        cmd += ["-simulate", simulate]
    cmd += list(extra) + [module + ".tla"]
    e = dict(os.environ)
    e["JAVA_TOOL_OPTIONS"] = "-Xss512m"
    if env:
        e.update(env)
    t0 = time.time()
    with open(outp, "wb") as fh:
        p = subprocess.run(cmd, cwd=sdir, env=e, stdout=fh, stderr=subprocess.STDOUT)
    shutil.rmtree(md, ignore_errors=True)
    wall = time.time() - t0
    stats = {"states_generated": 0, "distinct_states": 0, "wall_s": round(wall, 1), "rc": p.returncode}
    tail = tail_of(outp, 6000)
    m = None
    for m in SUMMARY_RE.finditer(tail):
        pass
    if m:
        stats["states_generated"] = int(m.group(1))
        stats["distinct_states"] = int(m.group(2))
    if p.returncode == 124:
        raise Inconclusive("TLC timeout on %s (%s)" % (module, cfg))
    stats["tail"] = tail[-1500:]
    return outp, stats


def tail_of(path, n):
    with open(path, "rb") as fh:
        fh.seek(0, 2)
        sz = fh.tell()
        fh.seek(max(0, sz - n))
        return fh.read().decode("utf-8", "replace")


PRINT_RE = re.compile(r'^<<"([A-Z-]+)", (.*)>>$')


def unescape_tla(s):
    # TLC prints strings with \" and \\ escapes
    out = []
    i = 0
    while i < len(s):
        c = s[i]
        if c == "\\" and i + 1 < len(s):
            n = s[i + 1]
            if n == "n":
                out.append("\n")
            elif n == "t":
                out.append("\t")
            else:
                out.append(n)
            i += 2
        else:
            out.append(c)
            i += 1
    return "".join(out)


def printed(path, tags=None):
    """Yields (tag, payload) for every single-line PrintT(<<"TAG", ...>>) in a TLC output file.
    A string payload is unescaped (and is usually JSON); other payloads are returned as text."""
    with open(path, "r", errors="replace") as fh:
        for line in fh:
            line = line.rstrip("\n")
            m = PRINT_RE.match(line)
            if not m:
                continue
            tag, rest = m.group(1), m.group(2)
            if tags and tag not in tags:
                continue
            if rest.startswith('"') and rest.endswith('"'):
                yield tag, unescape_tla(rest[1:-1])
            else:
                yield tag, rest


def tlc_errors(path):
    """TLC-level errors (spec evaluation errors, invariant violations) in an output file."""
    errs = []
    with open(path, "r", errors="replace") as fh:
        for line in fh:
            if line.startswith("Error:") or "is violated" in line or "Exception" in line:
                errs.append(line.strip())
    return errs


# ---------------------------------------------------------------------------
# known findings

def load_known():
    p = os.path.join(ROOT, "known_findings.json")
    if not os.path.exists(p):
        return []
    return json.load(open(p))


def known_open(known, key):
    for k in known:
        if k.get("status") == "open" and k.get("key") == key:
            return k
    return None


# ---------------------------------------------------------------------------
# evidence / verdict

def write_evidence(pid, tier, seed, coverage, assumptions, wall, violations, level="model_checking"):
    os.makedirs(EVID, exist_ok=True)
    ev = {"property_id": pid, "tier": tier, "seed": seed, "level": level, "coverage": coverage,
          "assumptions": assumptions, "wall_s": round(wall, 2), "violations": violations}
    with open(os.path.join(EVID, pid + ".json"), "w") as fh:
        json.dump(ev, fh, indent=1, sort_keys=True)
        fh.write("\n")


def save_replay(pid, seed, n, obj):
    os.makedirs(OUT, exist_ok=True)
    p = os.path.join(OUT, "%s-seed%d-%d.json" % (pid, seed, n))
    with open(p, "w") as fh:
        json.dump(obj, fh)
        fh.write("\n")
    return p


def trunc(x, n=400):
    s = json.dumps(x) if not isinstance(x, str) else x
    return s if len(s) <= n else s[:n] + "...(%d bytes)" % len(s)


def bstr(b):
    """byte array -> readable"""
    try:
        return bytes(b).decode("utf-8")
    except Exception:
        return repr(bytes(b))
