"""Component families: a small-scope TLA+ model is explored exhaustively by TLC, which checks its
invariants and emits every maximal behaviour (walk) with the expected results; the harness replays the
walks on the real code under every configuration and reports differences."""
import json, os, random, subprocess, sys, time
from vlib import *


def split_printed(outp, sc, mapping):
    """mapping: tag -> (filename, mode) with mode 'lines' or 'one'. Returns counts."""
    files = {}
    counts = {}
    for tag, (fn, mode) in mapping.items():
        files[tag] = open(sc.path(fn), "w")
        counts[tag] = 0
    for tag, payload in printed(outp, tuple(mapping)):
        fh = files[tag]
        if mapping[tag][1] == "one":
            fh.seek(0)
            fh.truncate()
            fh.write(payload)
        else:
            fh.write(payload + "\n")
        counts[tag] += 1
    for fh in files.values():
        fh.close()
    return counts


def read_diffs(path, limit=50):
    out = []
    if os.path.exists(path):
        with open(path) as fh:
            for line in fh:
                if line.strip():
                    out.append(json.loads(line))
                if len(out) >= limit:
                    break
    return out


def kv(s):
    d = {}
    for tok in s.split():
        if "=" in tok:
            k, v = tok.split("=", 1)
            try:
                d[k] = int(v)
            except ValueError:
                d[k] = v
    return d


def sample_lines(path, n, seed):
    with open(path) as fh:
        lines = fh.readlines()
    if len(lines) > n:
        rnd = random.Random(seed)
        idx = sorted(rnd.sample(range(len(lines)), n))
        lines = [lines[i] for i in idx]
        with open(path, "w") as fh:
            fh.writelines(lines)
    return len(lines)


def finish(pid, tier, seed, t0, cov, assumptions, diffs, key_of_diff, known, describe):
    """Common verdict logic for component checks: diffs are real executions the model rejects."""
    kf, viol = {}, []
    for d in diffs:
        key = key_of_diff(d)
        k = known_open(known, key)
        if k is not None and k["property"] == pid:
            kf.setdefault(key, [k, 0])[1] += 1
        else:
            viol.append((key, d))
    for k in sorted(kf):
        log("KNOWN-FINDING: property=%s %s (%s; %d occurrences)" % (pid, kf[k][0]["what"], k, kf[k][1]))
    paths = []
    seen = set()
    for key, d in viol:
        if key in seen or len(paths) >= 3:
            continue
        seen.add(key)
        log("mismatch %s: %s" % (key, trunc(describe(d), 600)))
        paths.append(save_replay(pid, seed, len(paths), {"property": pid, "key": key, "family": cov.get("family", ""), "diff": d}))
    cov["known_findings_seen"] = sorted(kf)
    write_evidence(pid, tier, seed, cov, assumptions, time.time() - t0, len(viol))
    for p in paths:
        log("VIOLATION property=%s replay=%s" % (pid, p))
    if paths:
        return 1
    log("OK %s: held on everything explored (%.0fs)" % (pid, time.time() - t0))
    return 0


# ---------------------------------------------------------------------------
# C07

def postiter_replay(replay):
    pid = "C07"
    sc = Scratch()
    try:
        zx = build_harness(("verif",))
        obj = json.load(open(replay))
        w = obj["diff"]["walk"]
        cfg = "PostIterQ.cfg" if len(w["calls"]) <= 3 and max(w["p"] + w["e"] + [0]) < 4 else "PostIter.cfg"
        outp, st = tlc(sc, "PostIter", cfg=cfg, workers=8, timeout=1500, outname="pi.out")
        split_printed(outp, sc, {"TABLES": ("tables.json", "one"), "BATCH": ("batches.ndjson", "lines")})
        with open(sc.path("walks.ndjson"), "w") as fh:
            fh.write(json.dumps(w) + "\n")
        p = subprocess.run([zx, "postiter", "-in", sc.path("walks.ndjson"), "-tables", sc.path("tables.json"),
                            "-batches", sc.path("batches.ndjson"), "-dir", sc.path("segs"), "-out", sc.path("diffs.ndjson")],
                           stdout=subprocess.PIPE, stderr=subprocess.STDOUT, text=True)
        diffs = read_diffs(sc.path("diffs.ndjson"))
        log(p.stdout.strip())
        if diffs:
            log("replay: " + trunc(diffs[0], 800))
            log("VIOLATION property=%s replay=%s" % (pid, replay))
            return 1
        log("replay: no violation of %s on the current tree" % pid)
        return 0
    finally:
        sc.close()


def postiter_stage(zx, sc, tier, seed, known):
    """C07 component stage: PostIter walks replayed on real iterators (the lifecycle stage follows)."""
    pid = "C07"
    q = tier == "quick"
    cfg = "PostIterQ.cfg" if q else "PostIter.cfg"
    outp, st = tlc(sc, "PostIter", cfg=cfg, workers=8, timeout=1800, outname="pi.out")
    errs = tlc_errors(outp)
    if errs:
        raise Inconclusive("PostIter model: " + "; ".join(errs[:3]))
    cnt = split_printed(outp, sc, {"WALK": ("piwalks.ndjson", "lines"), "TABLES": ("pitables.json", "one"), "BATCH": ("pibatches.ndjson", "lines")})
    os.remove(outp)
    if cnt["WALK"] == 0 or cnt["TABLES"] != 1:
        raise Inconclusive("PostIter model emitted no walks")
    log("G: PostIter(%s): %d states, %d maximal walks, %d batches" % (cfg, st["distinct_states"], cnt["WALK"], cnt["BATCH"]))
    # the operational model of the code's algorithm refines the declarative iterator; two deliberately
    # wrong variants of it must be refuted (the refinement check is not vacuous)
    icfg = "PostIterImplQ.cfg" if q else "PostIterImpl.cfg"
    io, ist = tlc(sc, "PostIterImpl", cfg=icfg, workers=8, timeout=3000, outname="pii.out")
    if tlc_errors(io):
        raise Inconclusive("PostIterImpl does not refine PostIter: " + "; ".join(tlc_errors(io)[:2]))
    for mut in ("gt", "same1"):
        mo, _ = tlc(sc, "PostIterImpl", cfg="PostIterImplMut_%s.cfg" % mut, workers=4, timeout=900, outname="pii-%s.out" % mut)
        if not any("Refines is violated" in e for e in tlc_errors(mo)):
            raise Inconclusive("PostIterImpl: the wrong variant %s is not refuted" % mut)
    log("G: PostIterImpl(%s): %d states, Refines holds; variants gt / same1 refuted" % (icfg, ist["distinct_states"]))
    args = [zx, "postiter", "-in", sc.path("piwalks.ndjson"), "-tables", sc.path("pitables.json"), "-batches", sc.path("pibatches.ndjson"),
            "-dir", sc.path("pisegs"), "-out", sc.path("pidiffs.ndjson"), "-seed", str(seed)]
    if q:
        args.append("-quick")
    p = subprocess.run(args, stdout=subprocess.PIPE, stderr=subprocess.STDOUT, text=True, timeout=7200)
    if p.returncode != 0:
        raise Inconclusive("harness postiter failed: " + p.stdout[-1500:])
    log("R: " + p.stdout.strip())
    rs = kv(p.stdout)
    if rs.get("runs", 0) == 0 or rs.get("onehit", 0) == 0 or rs.get("replace", 0) == 0:
        raise Inconclusive("vacuous replay (no runs / no single-hit / no ReplaceActual class exercised)")
    diffs = read_diffs(sc.path("pidiffs.ndjson"))
    paths, seen = [], set()
    for d in diffs:
        key = "postiter/%s" % d["what"].split(" ")[0]
        if key in seen or len(paths) >= 3:
            continue
        seen.add(key)
        log("mismatch %s: %s" % (key, trunc({k: d[k] for k in ("walk", "kind", "mode", "target", "flags", "variant", "what", "got", "want")}, 600)))
        paths.append(save_replay(pid, seed, 100 + len(paths), {"property": pid, "key": key, "family": "postiter", "diff": d}))
    with open(sc.path("piwalks.ndjson")) as fh:
        samples = [json.loads(fh.readline()) for _ in range(2)]
    cov = {"family": "postiter", "states": st["distinct_states"] + ist["distinct_states"], "transitions": st["states_generated"] + ist["states_generated"],
           "traces_validated_against_impl": rs["runs"], "samples": samples,
           "model": {"module": "PostIter.tla", "cfg": cfg, "invariants": ["IterSound", "NextOnlyComplete"], "wall_s": st["wall_s"]},
           "impl_model": {"module": "PostIterImpl.tla", "cfg": icfg, "invariant": "Refines", "distinct_states": ist["distinct_states"],
                          "refuted_variants": ["PostIterImplMut_gt.cfg", "PostIterImplMut_same1.cfg"]},
           "walks": cnt["WALK"], "iterator_runs": rs["runs"], "single_hit_runs": rs["onehit"], "replace_actual_runs": rs["replace"],
           "configurations": "every walk x {mem, mmap, merged} x chunk modes {1,2,3,1025} x {rich f/t, plain g/s} x detail flags x {except, replace, reuse, reuse-other, emptybm}",
           "exhaustive": True}
    return {"cov": cov, "paths": paths}


# ---------------------------------------------------------------------------
# C03: DvVisit component stage (the lifecycle stage follows in lifecheck)

def dvvisit_stage(zx, sc, tier, seed, known):
    q = tier == "quick"
    cfg = "DvVisitQ.cfg" if q else "DvVisit.cfg"
    outp, st = tlc(sc, "DvVisit", cfg=cfg, workers=8, timeout=1800, outname="dv.out")
    errs = tlc_errors(outp)
    if errs:
        raise Inconclusive("DvVisit model: " + "; ".join(errs[:3]))
    cnt = split_printed(outp, sc, {"WALK": ("dvwalks.ndjson", "lines"), "TABLES": ("dvtables.json", "one")})
    os.remove(outp)
    if cnt["WALK"] == 0 or cnt["TABLES"] != 1:
        raise Inconclusive("DvVisit model emitted no walks")
    p = subprocess.run([zx, "dvvisit", "-in", sc.path("dvwalks.ndjson"), "-tables", sc.path("dvtables.json"), "-dir", sc.path("dvsegs"),
                        "-out", sc.path("dvdiffs.ndjson")], stdout=subprocess.PIPE, stderr=subprocess.STDOUT, text=True, timeout=3600)
    if p.returncode != 0:
        raise Inconclusive("harness dvvisit failed: " + p.stdout[-1500:])
    rs = kv(p.stdout)
    log("G: DvVisit(%s): %d states (DvAnyOrder holds), %d maximal walks;  R: %s" % (cfg, st["distinct_states"], cnt["WALK"], p.stdout.strip()))
    if rs.get("runs", 0) == 0:
        raise Inconclusive("vacuous dvvisit replay")
    diffs = read_diffs(sc.path("dvdiffs.ndjson"))
    paths, seen = [], set()
    for d in diffs:
        key = "dvvisit/" + d["what"].split(" ")[0]
        if key in seen or len(paths) >= 3:
            continue
        seen.add(key)
        log("mismatch %s: %s" % (key, trunc(d, 700)))
        paths.append(save_replay("C03", seed, 100 + len(paths), {"property": "C03", "key": key, "family": "dvvisit", "diff": d}))
    with open(sc.path("dvwalks.ndjson")) as fh:
        samples = [json.loads(fh.readline())]
    cov = {"family": "dvvisit", "states": st["distinct_states"], "transitions": st["states_generated"],
           "traces_validated_against_impl": rs["runs"], "samples": samples,
           "model": {"module": "DvVisit.tla", "cfg": cfg, "invariants": ["DvAnyOrder"], "wall_s": st["wall_s"]},
           "walks": cnt["WALK"], "runs": rs["runs"],
           "configurations": "every visit sequence x doc-value chunk sizes {1,2,3,1024} x provenance pairs of the two segments {mem, mmap, merged}"}
    return {"cov": cov, "paths": paths}


def dvvisit_replay(replay):
    sc = Scratch()
    try:
        zx = build_harness(("verif",))
        obj = json.load(open(replay))
        outp, st = tlc(sc, "DvVisit", cfg="DvVisitQ.cfg", workers=8, timeout=600, outname="dv.out")
        split_printed(outp, sc, {"TABLES": ("dvtables.json", "one")})
        with open(sc.path("w.ndjson"), "w") as fh:
            fh.write(json.dumps(obj["diff"]["walk"]) + "\n")
        p = subprocess.run([zx, "dvvisit", "-in", sc.path("w.ndjson"), "-tables", sc.path("dvtables.json"), "-dir", sc.path("dvsegs"),
                            "-out", sc.path("dvdiffs.ndjson")], stdout=subprocess.PIPE, stderr=subprocess.STDOUT, text=True)
        diffs = read_diffs(sc.path("dvdiffs.ndjson"))
        if diffs:
            log("replay: " + trunc(diffs[0], 800))
            log("VIOLATION property=C03 replay=%s" % replay)
            return 1
        log("replay: no violation of C03 on the current tree")
        return 0
    finally:
        sc.close()


# ---------------------------------------------------------------------------
# C08

def run_c08(tier, seed, replay=None):
    pid = "C08"
    t0 = time.time()
    q = tier == "quick"
    sc = Scratch()
    try:
        zx = build_harness(("verif",))
        known = load_known()
        cfg = "DictIterQ.cfg" if q else "DictIter.cfg"
        if replay:
            cfg = "DictIter.cfg"
        outp, st = tlc(sc, "DictIter", cfg=cfg, workers=8, timeout=1800, outname="di.out")
        errs = tlc_errors(outp)
        if errs:
            raise Inconclusive("DictIter model: " + "; ".join(errs[:3]))
        cnt = split_printed(outp, sc, {"WALK": ("walks.ndjson", "lines"), "DICT": ("dicts.ndjson", "lines")})
        os.remove(outp)
        if cnt["WALK"] == 0:
            raise Inconclusive("DictIter model emitted no walks")
        if replay:
            obj = json.load(open(replay))
            with open(sc.path("walks.ndjson"), "w") as fh:
                fh.write(json.dumps(obj["diff"]["walk"]) + "\n")
        # the original design (scratch postings list not cleared) must be refuted by TLC: the model is not vacuous
        o2, st2 = tlc(sc, "DictIter", cfg="DictIterOrig.cfg", workers=4, timeout=600, outname="di2.out")
        refuted = any("EnumExact is violated" in e for e in tlc_errors(o2))
        if not refuted:
            raise Inconclusive("DictIter model does not distinguish the original from the repaired design")
        p = subprocess.run([zx, "dictiter", "-in", sc.path("walks.ndjson"), "-tables", sc.path("dicts.ndjson"), "-dir", sc.path("segs"),
                            "-out", sc.path("diffs.ndjson")], stdout=subprocess.PIPE, stderr=subprocess.STDOUT, text=True, timeout=3600)
        if p.returncode != 0:
            raise Inconclusive("harness dictiter failed: " + p.stdout[-1500:])
        rs = kv(p.stdout)
        log("G: DictIter(%s): %d states, %d queries (EnumExact, Ascending hold; original design refuted);  R: %s" % (cfg, st["distinct_states"], cnt["WALK"], p.stdout.strip()))
        if rs.get("runs", 0) == 0 or rs.get("vellum_runs", 0) == 0:
            raise Inconclusive("vacuous dictiter replay")
        diffs = read_diffs(sc.path("diffs.ndjson"))
        if replay:
            if diffs:
                log("replay: " + trunc(diffs[0], 800))
                log("VIOLATION property=%s replay=%s" % (pid, replay))
                return 1
            log("replay: no violation of %s on the current tree" % pid)
            return 0
        with open(sc.path("walks.ndjson")) as fh:
            lines = fh.readlines()
        samples = [json.loads(lines[len(lines) // 2]), json.loads(lines[-1])]
        cov = {"family": "dictiter", "states": st["distinct_states"] + st2["distinct_states"], "transitions": st["states_generated"] + st2["states_generated"],
               "traces_validated_against_impl": rs["runs"], "samples": samples,
               "model": {"module": "DictIter.tla", "cfg": cfg, "invariants": ["EnumExact", "Ascending"], "refuted_variant": "DictIterOrig.cfg (Repaired = FALSE)", "wall_s": st["wall_s"]},
               "queries": cnt["WALK"], "dictionaries": cnt["DICT"], "iterator_runs": rs["runs"], "vellum_automaton_runs": rs["vellum_runs"],
               "configurations": "every term set x acceptance set x key range x {mem, mmap, merged, merged twice} x {trie DFA, trie DFA with decoys, nil, vellum regexp / Levenshtein automata with the same denotation}; Contains and Cardinality per dictionary",
               "evaluations": rs["runs"], "distinct_nontrivial": cnt["WALK"],
               "rule": "one evaluation = one enumeration of a real dictionary; distinct = distinct (term set, acceptance set, range)", "exhaustive": True}
        assumptions = ["key ranges are well-formed; an empty end key is read as 'no bound' by Go/vellum and is outside the domain",
                       "acceptance of a vellum automaton on a term is its own denotation (the automaton is run on the term)",
                       "expected entries are emitted by TLC from DictIter.tla"]
        return finish(pid, tier, seed, t0, cov, assumptions, diffs, lambda d: "dictiter/" + d["what"], known, lambda d: d)
    finally:
        sc.close()


# ---------------------------------------------------------------------------
# C11: CtxPool component stage

def ctxpool_stage(zx, sc, tier, seed, known):
    pid = "C11"
    q = tier == "quick"
    cfg = "CtxPoolQ.cfg" if q else "CtxPool.cfg"
    outp, st = tlc(sc, "CtxPool", cfg=cfg, workers=8, timeout=1800, outname="cp.out")
    errs = tlc_errors(outp)
    if errs:
        raise Inconclusive("CtxPool model: " + "; ".join(errs[:3]))
    seen = set()
    with open(sc.path("cpwalks.ndjson"), "w") as fh:
        for tag, payload in printed(outp, ("WALK", "TABLES")):
            if tag == "TABLES":
                open(sc.path("cptables.json"), "w").write(payload)
            elif payload not in seen:
                seen.add(payload)
                fh.write(payload + "\n")
    os.remove(outp)
    if not seen:
        raise Inconclusive("CtxPool model emitted no schedules")
    total = len(seen)
    n = sample_lines(sc.path("cpwalks.ndjson"), 10 ** 9 if q else 400000, seed)
    st3 = None
    if not q:
        # three concurrent visitors, model only (no emission): Exclusive over every interleaving
        o3, st3 = tlc(sc, "CtxPool", cfg="CtxPool3.cfg", workers=16, timeout=1800, outname="cp3.out")
        if tlc_errors(o3):
            raise Inconclusive("CtxPool model (three visitors): " + "; ".join(tlc_errors(o3)[:3]))
        os.remove(o3)
    o2, st2 = tlc(sc, "CtxPool", cfg="CtxPoolOrig.cfg", workers=4, timeout=600, outname="cp2.out")
    if not any("Exclusive is violated" in e for e in tlc_errors(o2)):
        raise Inconclusive("CtxPool model does not distinguish the original (double Put) from the repaired design")
    p = subprocess.run([zx, "ctxpool", "-in", sc.path("cpwalks.ndjson"), "-tables", sc.path("cptables.json"), "-dir", sc.path("cpsegs"),
                        "-out", sc.path("cpdiffs.ndjson")], stdout=subprocess.PIPE, stderr=subprocess.STDOUT, text=True, timeout=7200)
    if p.returncode != 0:
        raise Inconclusive("harness ctxpool failed: " + p.stdout[-1500:])
    rs = kv(p.stdout)
    log("G: CtxPool(%s): %d states (Exclusive holds; original design refuted), %d distinct schedules;  R: %s" % (cfg, st["distinct_states"], total, p.stdout.strip()))
    if rs.get("steps", 0) == 0 or rs.get("maxpool", 0) == 0:
        raise Inconclusive("vacuous ctxpool replay (pool snapshots never saw an object)")
    diffs = read_diffs(sc.path("cpdiffs.ndjson"))
    paths, seenk = [], set()
    for d in diffs:
        key = "ctxpool/" + d["what"]
        if key in seenk or len(paths) >= 3:
            continue
        seenk.add(key)
        log("mismatch %s: %s" % (key, trunc(d, 700)))
        paths.append(save_replay(pid, seed, 100 + len(paths), {"property": pid, "key": key, "family": "ctxpool", "diff": d}))
    with open(sc.path("cpwalks.ndjson")) as fh:
        lines = fh.readlines()
    cov = {"family": "ctxpool", "states": st["distinct_states"] + st2["distinct_states"], "transitions": st["states_generated"] + st2["states_generated"],
           "traces_validated_against_impl": n, "samples": [json.loads(lines[len(lines) // 2])],
           "model": {"module": "CtxPool.tla", "cfg": cfg, "invariants": ["Exclusive"], "refuted_variant": "CtxPoolOrig.cfg (Repaired = FALSE)", "wall_s": st["wall_s"],
                     "three_visitors": None if st3 is None else {"cfg": "CtxPool3.cfg", "distinct_states": st3["distinct_states"], "wall_s": st3["wall_s"]}},
           "schedules": total, "schedules_replayed": n, "steps_with_pool_snapshot": rs["steps"], "max_pool_size_seen": rs["maxpool"],
           "configurations": "every schedule alternately on the in-memory and the mmap-opened segment; GOMAXPROCS(1), collector parked, pool snapshot after every step"}
    return {"cov": cov, "paths": paths}


def ctxpool_replay(replay):
    sc = Scratch()
    try:
        zx = build_harness(("verif",))
        obj = json.load(open(replay))
        outp, st = tlc(sc, "CtxPool", cfg="CtxPoolQ.cfg", workers=8, timeout=600, outname="cp.out")
        split_printed(outp, sc, {"TABLES": ("cptables.json", "one")})
        with open(sc.path("w.ndjson"), "w") as fh:
            fh.write(json.dumps(obj["diff"]["walk"]) + "\n")
        p = subprocess.run([zx, "ctxpool", "-in", sc.path("w.ndjson"), "-tables", sc.path("cptables.json"), "-dir", sc.path("cpsegs"),
                            "-out", sc.path("cpdiffs.ndjson")], stdout=subprocess.PIPE, stderr=subprocess.STDOUT, text=True)
        diffs = read_diffs(sc.path("cpdiffs.ndjson"))
        if diffs:
            log("replay: " + trunc(diffs[0], 800))
            log("VIOLATION property=C11 replay=%s" % replay)
            return 1
        log("replay: no violation of C11 on the current tree")
        return 0
    finally:
        sc.close()


# ---------------------------------------------------------------------------
# C20

def run_c20(tier, seed, replay=None):
    pid = "C20"
    t0 = time.time()
    q = tier == "quick"
    sc = Scratch()
    try:
        zx = build_harness(("verif",))
        zxr = build_harness(("verif",), race=True)
        known = load_known()
        cfg = "RefCountQ.cfg" if q else "RefCount.cfg"
        outp, st = tlc(sc, "RefCount", cfg=cfg, workers=8, timeout=1800, outname="rc.out")
        errs = tlc_errors(outp)
        if errs:
            raise Inconclusive("RefCount model: " + "; ".join(errs[:3]))
        cnt = split_printed(outp, sc, {"WALK": ("walks.ndjson", "lines"), "TABLES": ("tables.json", "one")})
        os.remove(outp)
        if cnt["WALK"] == 0:
            raise Inconclusive("RefCount model emitted no walks")
        if replay:
            obj = json.load(open(replay))
            with open(sc.path("walks.ndjson"), "w") as fh:
                fh.write(json.dumps(obj["diff"]["walk"]) + "\n")
        diffs, tot = [], {"ops": 0, "stress_rounds": 0}
        for exe, walks, rounds, name in ((zx, sc.path("walks.ndjson"), 40 if q else 400, "seq"), (zxr, "/dev/null", 8 if q else 150, "race")):
            p = subprocess.run([exe, "refcount", "-in", walks, "-tables", sc.path("tables.json"), "-dir", sc.path("segs-" + name),
                                "-out", sc.path("diffs-%s.ndjson" % name), "-n", str(rounds)],
                               stdout=subprocess.PIPE, stderr=subprocess.STDOUT, text=True, timeout=3600)
            if "WARNING: DATA RACE" in p.stdout:
                r = p.stdout[p.stdout.index("WARNING: DATA RACE"):][:4000]
                diffs.append({"walk": {"ops": []}, "step": -3, "what": "data race (race detector)", "got": r, "want": ""})
            elif p.returncode != 0:
                raise Inconclusive("harness refcount failed: " + p.stdout[-1500:])
            rs = kv(p.stdout)
            tot["ops"] += rs.get("ops", 0)
            tot["stress_rounds"] += rs.get("stress_rounds", 0)
            log("R(%s): %s" % (name, p.stdout.strip()[-200:]))
            diffs += read_diffs(sc.path("diffs-%s.ndjson" % name))
        if tot["ops"] == 0:
            raise Inconclusive("vacuous refcount replay")
        if replay:
            if diffs:
                log("replay: " + trunc(diffs[0], 800))
                log("VIOLATION property=%s replay=%s" % (pid, replay))
                return 1
            log("replay: no violation of %s on the current tree" % pid)
            return 0
        with open(sc.path("walks.ndjson")) as fh:
            lines = fh.readlines()
        cov = {"family": "refcount", "states": st["distinct_states"], "transitions": st["states_generated"],
               "traces_validated_against_impl": cnt["WALK"], "samples": [json.loads(lines[len(lines) // 2]), json.loads(lines[-1])],
               "model": {"module": "RefCount.tla", "cfg": cfg, "invariants": ["RefSafe"], "wall_s": st["wall_s"]},
               "walks": cnt["WALK"], "operations_replayed": tot["ops"], "concurrent_rounds": tot["stress_rounds"],
               "configurations": "every behaviour of AddRef/DecRef/Close/read by 2 (quick) / 3 (thorough) holders that releases the last reference, replayed on a fresh copy of a real file; /proc/self/maps and /proc/self/fd inspected and a complete read made after every operation; concurrent holders and readers under -race",
               "evaluations": tot["ops"], "distinct_nontrivial": cnt["WALK"],
               "rule": "one evaluation = one reference operation followed by /proc inspection and a complete read; distinct = distinct operation sequences", "exhaustive": True}
        assumptions = ["holders call AddRef/DecRef/Close only while they own a reference (balanced use)",
                       "Linux /proc/self/maps and /proc/self/fd describe the process's mappings and descriptors"]
        # the thesaurus cache's final release (Clear under its write lock) is part of the last DecRef: a lock left
        # behind by concurrent look-ups keeps the mapping for ever
        sy = syncache_stage(zx, sc, tier, seed, pid)
        cov["thesaurus_cache"] = sy["cov"]
        for k in ("states", "transitions", "traces_validated_against_impl"):
            cov[k] += sy["cov"].get(k, 0)
        rc = finish(pid, tier, seed, t0, cov, assumptions, diffs, lambda d: "refcount/" + d["what"], known, lambda d: d)
        for p in sy["paths"]:
            log("VIOLATION property=%s replay=%s" % (pid, p))
        return 1 if sy["paths"] else rc
    finally:
        sc.close()


# ---------------------------------------------------------------------------
# C17 / C18: OutFile

def out_prop(item):
    k = item[0]
    if k in ("async-result", "incomplete-async"):
        return "C18"
    try:
        if k == "result":
            cancel, cw, ef = item[4], item[5], item[6]
        elif k == "file":
            cancel, cw, ef = item[5], item[6], 0
        else:
            cancel, cw, ef = item[2], item[3], 0
    except IndexError:
        return "C17"
    if ef:
        return "C19"
    return "C18" if (cancel != 0 or cw != 0) else "C17"


def out_run(zx, sc, seed, quick, name):
    tp = sc.path("out-%s.ndjson" % name)
    args = [zx, "outfile", "-seed", str(seed), "-dir", sc.path("ofsegs-" + name), "-out", tp]
    if quick:
        args.append("-quick")
    p = subprocess.run(args, stdout=subprocess.PIPE, stderr=subprocess.STDOUT, text=True, timeout=7200)
    if p.returncode != 0:
        raise Inconclusive("harness outfile failed: " + p.stdout[-1500:])
    outp, st = tlc(sc, "TraceOut", cfg="TraceOut.cfg", env={"TRACE": tp}, workers=1, timeout=3000, outname="traceout-%s.out" % name)
    mism, acc, rej = [], None, None
    for tag, payload in printed(outp, ("MISMATCH", "ACCEPTED", "REJECTED-AT")):
        if tag == "MISMATCH":
            mism.append(json.loads(payload))
        elif tag == "ACCEPTED":
            acc = payload
        else:
            rej = payload
    if acc is None:
        raise Inconclusive("TraceOut did not consume the trace (rejected at %s): %s" % (rej, tlc_errors(outp)[:2]))
    return tp, kv(p.stdout), mism, st


def run_out(pid, tier, seed, replay=None):
    t0 = time.time()
    q = tier == "quick"
    sc = Scratch()
    try:
        zx = build_harness(("verif",))
        known = load_known()
        if replay:
            seed = json.load(open(replay)).get("seed", seed)
        models = []
        for cfg in ("OutFilePersist.cfg", "OutFileMerge.cfg"):
            outp, st = tlc(sc, "OutFile", cfg=cfg, workers=8, timeout=1800, outname=cfg + ".out")
            errs = tlc_errors(outp)
            if errs:
                raise Inconclusive("OutFile model (%s): %s" % (cfg, "; ".join(errs[:3])))
            models.append((cfg, st))
        log("G: OutFile: " + ", ".join("%s %d states" % (c, s["distinct_states"]) for c, s in models) +
            " (OkMeansComplete, ErrMeansNoFile, FaultSurfaces, CancelSurfaces, EngineSurfaces hold)")
        tp, rs, mism, vst = out_run(zx, sc, seed, q, "a")
        log("T/V: %d programs, %d fault/cancel plans executed on the real code and validated by TLC in %.0fs; mismatching plans: %d" %
            (rs.get("programs", 0), rs.get("plans", 0), vst["wall_s"], len(mism)))
        if rs.get("plans", 0) == 0:
            raise Inconclusive("vacuous outfile run")
        mine = [(m, it) for m in mism for it in m["bad"] if out_prop(it) == pid]
        other = [(m, it) for m in mism for it in m["bad"] if out_prop(it) != pid]
        for m, it in other[:3]:
            log("NOTE: mismatch attributed to %s, not to this check: %s" % (out_prop(it), trunc(it, 200)))
        paths = []
        if mine:
            # reproduce from the same seed before reporting; the order in which the merger writes its sections varies from
            # run to run (map iteration), so a plan may meet the defect in one run and not in the next: up to four re-runs,
            # a candidate counts when the same kind of mismatch on the same kind of operation shows again
            again = set()
            want = {(m["prov"], it[0]) for m, it in mine}
            for tag in "bcde":
                tp2, rs2, mism2, _ = out_run(zx, sc, seed, q, tag)
                again |= {(m["prov"], it[0]) for m in mism2 for it in m["bad"]}
                if want <= again:
                    break
            lines = open(tp).read().splitlines()
            seen = set()
            for m, it in mine:
                key = "%s/%s" % (m["prov"], it[0])
                if (m["prov"], it[0]) not in again and it[0] not in ("async-result", "incomplete-async"):
                    log("UNREPRODUCED: %s" % trunc(it, 200))
                    continue
                if key in seen or len(paths) >= 3:
                    continue
                seen.add(key)
                ev = json.loads(lines[m["l"] - 1])
                log("mismatch %s: real=%s plan=%s" % (key, trunc(ev, 300), trunc(it, 200)))
                paths.append(save_replay(pid, seed, len(paths), {"property": pid, "key": key, "family": "outfile", "seed": seed, "event": ev, "detail": it}))
            if not paths:
                raise Inconclusive("violation candidates did not reproduce")
        if replay:
            if paths:
                log("VIOLATION property=%s replay=%s" % (pid, replay))
                return 1
            log("replay: no violation of %s on the current tree" % pid)
            return 0
        samples = []
        with open(tp) as fh:
            for line in fh:
                if '"ev":"out"' in line and len(samples) < 3 and ('"fault":-1' not in line or pid == "C18"):
                    samples.append(json.loads(line))
        cov = {"family": "outfile", "states": sum(s["distinct_states"] for _, s in models) + vst["distinct_states"],
               "transitions": sum(s["states_generated"] for _, s in models) + vst["states_generated"],
               "traces_validated_against_impl": rs["plans"], "samples": samples,
               "model": {"module": "OutFile.tla", "cfgs": [c for c, _ in models],
                         "invariants": ["OkMeansComplete", "ErrMeansNoFile", "FaultSurfaces", "CancelSurfaces", "EngineSurfaces"]},
               "programs": rs["programs"], "plans": rs["plans"],
               "configurations": "Persist, WriteTo (failing writer at byte offsets) and Merge (RLIMIT_FSIZE at byte offsets, merge buffer 16 / 64 / 1 MiB; close channel found closed at every poll via the verif hook, closed before the call, from inside the i-th write callback, by another goroutine after a random delay, and combined with a write fault)",
               "evaluations": rs["plans"], "distinct_nontrivial": rs["plans"],
               "rule": "one evaluation = one run of the real operation under one fault / cancellation plan, outcome compared with OutFile's RunToEnd on the program recorded from the fault-free run", "exhaustive": False}
        assumptions = ["fsync and close failures cannot be injected", "the footer is 5 x 8 + 3 x 4 bytes written as 8 checked writes (documented layout)",
                       "RLIMIT_FSIZE + ignored SIGXFSZ give a partial write followed by EFBIG at the exact offset"]
        write_evidence(pid, tier, seed, cov, assumptions, time.time() - t0, len(paths))
        for p in paths:
            log("VIOLATION property=%s replay=%s" % (pid, p))
        if paths:
            return 1
        log("OK %s: held on everything explored (%.0fs)" % (pid, time.time() - t0))
        return 0
    finally:
        sc.close()


# ---------------------------------------------------------------------------
# C16

def run_c16(tier, seed, replay=None):
    pid = "C16"
    t0 = time.time()
    q = tier == "quick"
    sc = Scratch()
    try:
        zx = build_harness(("verif", "vectors"))
        zxr = build_harness(("verif", "vectors"), race=True)
        known = load_known()
        cfg = "VecCacheQ.cfg" if q else "VecCache.cfg"
        outp, st = tlc(sc, "VecCache", cfg=cfg, workers=8, timeout=2400, outname="vc.out")
        errs = tlc_errors(outp)
        if errs:
            raise Inconclusive("VecCache model: " + "; ".join(errs[:3]))
        cnt = split_printed(outp, sc, {"WALK": ("walks.ndjson", "lines"), "TABLES": ("tables.json", "one")})
        os.remove(outp)
        if cnt["WALK"] == 0:
            raise Inconclusive("VecCache model emitted no walks")
        total = cnt["WALK"]
        # non-vacuity: the variant whose second look-up hands out the index without a reference must be refuted
        o2, st2 = tlc(sc, "VecCache", cfg="VecCacheUncounted.cfg", workers=4, timeout=600, outname="vc2.out")
        if not any("is violated" in e for e in tlc_errors(o2)):
            raise Inconclusive("VecCache model does not refute the uncounted second look-up")
        os.remove(o2)
        if replay:
            obj = json.load(open(replay))
            with open(sc.path("walks.ndjson"), "w") as fh:
                fh.write(json.dumps(obj["diff"]["walk"]) + "\n")
        n = sample_lines(sc.path("walks.ndjson"), 5000 if q else 60000, seed)
        diffs, tot = [], {"steps": 0, "evictions": 0, "stress_rounds": 0, "gated": 0}
        for exe, walks, rounds, name in ((zx, sc.path("walks.ndjson"), 0, "seq"), (zxr, "/dev/null", 3 if q else 40, "race")):
            p = subprocess.run([exe, "veccache", "-in", walks, "-tables", sc.path("tables.json"), "-dir", sc.path("segs-" + name),
                                "-out", sc.path("diffs-%s.ndjson" % name), "-n", str(rounds)],
                               stdout=subprocess.PIPE, stderr=subprocess.STDOUT, text=True, timeout=7200)
            if "WARNING: DATA RACE" in p.stdout and ("/zapx/" in p.stdout or REPO in p.stdout):
                r = p.stdout[p.stdout.index("WARNING: DATA RACE"):][:4000]
                diffs.append({"walk": {"steps": []}, "step": -3, "what": "data race (race detector)", "got": r, "want": ""})
            elif p.returncode != 0:
                raise Inconclusive("harness veccache failed: " + p.stdout[-1500:])
            rs = kv(p.stdout)
            for k in tot:
                tot[k] += rs.get(k, 0)
            log("R(%s): %s" % (name, p.stdout.strip()[-200:]))
            diffs += read_diffs(sc.path("diffs-%s.ndjson" % name))
        if tot["steps"] == 0:
            raise Inconclusive("vacuous veccache replay (no steps)")
        if tot["evictions"] == 0 and not replay:
            # allowed by the specification (eviction is never required), but worth knowing
            log("NOTE: no cache eviction was observed in this run (expiry ticks never released an entry)")
        if replay:
            if diffs:
                log("replay: " + trunc(diffs[0], 800))
                log("VIOLATION property=%s replay=%s" % (pid, replay))
                return 1
            log("replay: no violation of %s on the current tree" % pid)
            return 0
        with open(sc.path("walks.ndjson")) as fh:
            lines = fh.readlines()
        cov = {"family": "veccache", "states": st["distinct_states"], "transitions": st["states_generated"],
               "traces_validated_against_impl": n, "samples": [json.loads(lines[-1])],
               "model": {"module": "VecCache.tla", "cfg": cfg, "invariants": ["HandleSafe", "ClosedOnce", "NoLeak", "RefsExact"], "wall_s": st["wall_s"],
                         "refuted_variant": "VecCacheUncounted.cfg (Counted = FALSE: the look-up under the write lock takes no reference)"},
               "lookups_parked_between_their_critical_sections": tot["gated"],
               "walks_emitted": total, "walks_replayed": n, "steps": tot["steps"], "evictions_observed": tot["evictions"], "concurrent_rounds": tot["stress_rounds"],
               "configurations": "every edge of the VecCache state graph (open with every exclusion bitmap over two documents, filtered or not, as two critical sections: a lookup that misses is parked at the verif gate between read-lock and write-lock section while other handles open, close and expire; search; close handle; expiry tick; segment close) replayed on in-memory and mmap segments with the engine double; engine counters after every step; concurrent searchers with the monitor at 1 ms under -race",
               "evaluations": tot["steps"], "distinct_nontrivial": n,
               "rule": "one evaluation = one step of a walk executed on the real cache with counters inspected; distinct = distinct walks", "exhaustive": n == total}
        assumptions = ["the engine double honours the go-faiss contract (native FAISS is absent)", "handles are closed before the segment is closed; a handle is closed once",
                       "eviction is allowed but never required by the specification"]
        return finish(pid, tier, seed, t0, cov, assumptions, diffs, lambda d: "veccache/" + d["what"], known, lambda d: d)
    finally:
        sc.close()


# ---------------------------------------------------------------------------
# chunked coders (part of C07: posting details; part of C03: doc values)

CC_MUTS = {"int": ["noZero", "rawLens", "noCloseOnChange", "resetKeepsCurr"], "content": ["metaKept"]}


def chunkcoder_stage(zx, sc, tier, seed, pid, kind):
    q = tier == "quick"
    cfg = "ChunkCoderQ.cfg" if q else "ChunkCoder.cfg"
    outp, st = tlc(sc, "ChunkCoder", cfg=cfg, workers=8, timeout=1800, outname="cc.out")
    errs = tlc_errors(outp)
    if errs:
        raise Inconclusive("ChunkCoder model: " + "; ".join(errs[:3]))
    n = 0
    with open(sc.path("ccwalks.ndjson"), "w") as fh:
        for tag, payload in printed(outp, ("WALK",)):
            if '"kind":"%s"' % kind in payload:
                fh.write(payload + "\n")
                n += 1
    os.remove(outp)
    if n == 0:
        raise Inconclusive("ChunkCoder model emitted no scripts")
    refuted = []
    for m in CC_MUTS[kind]:
        o2, _ = tlc(sc, "ChunkCoder", cfg="ChunkCoderMut_%s.cfg" % m, workers=2, timeout=600, outname="ccm.out")
        if not any("RoundTrip is violated" in e for e in tlc_errors(o2)):
            raise Inconclusive("ChunkCoder model does not refute the wrong variant " + m)
        refuted.append(m)
    st3 = None
    if not q and kind == "int":
        o3, st3 = tlc(sc, "ChunkCoder", cfg="ChunkCoder3.cfg", workers=8, timeout=1800, outname="cc3.out")
        if tlc_errors(o3):
            raise Inconclusive("ChunkCoder model (three terms): " + "; ".join(tlc_errors(o3)[:3]))
        os.remove(o3)
    p = subprocess.run([zx, "chunkcoder", "-in", sc.path("ccwalks.ndjson"), "-out", sc.path("ccdiffs.ndjson")],
                       stdout=subprocess.PIPE, stderr=subprocess.STDOUT, text=True, timeout=3600)
    if p.returncode != 0:
        raise Inconclusive("harness chunkcoder failed: " + p.stdout[-1500:])
    rs = kv(p.stdout)
    log("G: ChunkCoder(%s): %d states (RoundTrip holds; refuted: %s), %d %s-coder scripts;  R: %s" %
        (cfg, st["distinct_states"], ", ".join(refuted), n, kind, p.stdout.strip()))
    if rs.get("terms", 0) == 0:
        raise Inconclusive("vacuous chunkcoder replay")
    diffs = read_diffs(sc.path("ccdiffs.ndjson"))
    paths, seen = [], set()
    for d in diffs:
        key = "chunkcoder/" + d["what"]
        if key in seen or len(paths) >= 2:
            continue
        seen.add(key)
        log("mismatch %s: %s" % (key, trunc(d, 700)))
        paths.append(save_replay(pid, seed, 150 + len(paths), {"property": pid, "key": key, "family": "chunkcoder", "diff": d}))
    with open(sc.path("ccwalks.ndjson")) as fh:
        lines = fh.readlines()
    cov = {"family": "chunkcoder", "kind": kind, "states": st["distinct_states"] + (st3["distinct_states"] if st3 else 0),
           "transitions": st["states_generated"] + (st3["states_generated"] if st3 else 0),
           "traces_validated_against_impl": n, "samples": [json.loads(lines[len(lines) // 2])],
           "model": {"module": "ChunkCoder.tla", "cfg": cfg, "invariants": ["RoundTrip"], "refuted_variants": refuted, "wall_s": st["wall_s"],
                     "three_terms_model_only": None if st3 is None else {"cfg": "ChunkCoder3.cfg", "distinct_states": st3["distinct_states"]}},
           "scripts": n, "terms": rs["terms"],
           "configurations": "every script of two uses of one reused int coder (chunk size changing between uses) / every single use of a fresh content coder (direct and progressive write), documents 0..MaxDoc, every chunk size; written by the real coder, read back by the real decoder through the verif hook"}
    return {"cov": cov, "paths": paths}


def chunkcoder_replay(pid, replay):
    sc = Scratch()
    try:
        zx = build_harness(("verif",))
        obj = json.load(open(replay))
        with open(sc.path("w.ndjson"), "w") as fh:
            fh.write(json.dumps(obj["diff"]["walk"]) + "\n")
        p = subprocess.run([zx, "chunkcoder", "-in", sc.path("w.ndjson"), "-out", sc.path("ccdiffs.ndjson")],
                           stdout=subprocess.PIPE, stderr=subprocess.STDOUT, text=True)
        diffs = read_diffs(sc.path("ccdiffs.ndjson"))
        if diffs:
            log("replay: " + trunc(diffs[0], 800))
            log("VIOLATION property=%s replay=%s" % (pid, replay))
            return 1
        log("replay: no violation of %s on the current tree" % pid)
        return 0
    finally:
        sc.close()


def merge_pre(a, b):
    """two component stages of one check: the first one's coverage leads, the second is nested"""
    cov = dict(a["cov"])
    for k in ("states", "transitions", "traces_validated_against_impl"):
        cov[k] = cov.get(k, 0) + b["cov"].get(k, 0)
    cov["coders"] = b["cov"]
    return {"cov": cov, "paths": a["paths"] + b["paths"]}


def c03_pre(zx, sc, tier, seed, known):
    return merge_pre(dvvisit_stage(zx, sc, tier, seed, known), chunkcoder_stage(zx, sc, tier, seed, "C03", "content"))


def c07_pre(zx, sc, tier, seed, known):
    return merge_pre(postiter_stage(zx, sc, tier, seed, known), chunkcoder_stage(zx, sc, tier, seed, "C07", "int"))



# ---------------------------------------------------------------------------
# thesaurus cache at the grain of its critical sections (part of C11 and of C20)

def syncache_stage(zx, sc, tier, seed, pid):
    outp, st = tlc(sc, "SynCache", cfg="SynCache.cfg", workers=4, timeout=900, outname="sy.out")
    errs = tlc_errors(outp)
    if errs:
        raise Inconclusive("SynCache model: " + "; ".join(errs[:3]))
    n, tables = 0, None
    with open(sc.path("sywalks.ndjson"), "w") as fh:
        for tag, payload in printed(outp, ("WALK", "TABLES")):
            if tag == "TABLES":
                tables = tables or payload
            else:
                fh.write(payload + "\n")
                n += 1
    os.remove(outp)
    if n == 0 or tables is None:
        raise Inconclusive("SynCache model emitted no behaviours")
    open(sc.path("sytables.json"), "w").write(tables)
    o2, _ = tlc(sc, "SynCache", cfg="SynCacheLeak.cfg", workers=2, timeout=600, outname="sy2.out")
    if not any("LockFree is violated" in e for e in tlc_errors(o2)):
        raise Inconclusive("SynCache model does not refute the variant that leaves the write lock behind")
    p = subprocess.run([zx, "syncache", "-in", sc.path("sywalks.ndjson"), "-tables", sc.path("sytables.json"), "-dir", sc.path("sysegs"),
                        "-out", sc.path("sydiffs.ndjson")], stdout=subprocess.PIPE, stderr=subprocess.STDOUT, text=True, timeout=3600)
    if p.returncode != 0:
        raise Inconclusive("harness syncache failed: " + p.stdout[-1500:])
    rs = kv(p.stdout)
    log("G: SynCache: %d states (LockFree, OneEntry, Served hold; leaked-lock variant refuted), %d behaviours;  R: %s" % (st["distinct_states"], n, p.stdout.strip()))
    if rs.get("gated", 0) == 0:
        raise Inconclusive("vacuous syncache replay (no look-up was parked between its sections)")
    diffs = read_diffs(sc.path("sydiffs.ndjson"))
    paths, seen = [], set()
    for d in diffs:
        key = "syncache/" + d["what"].split(":")[0]
        if key in seen or len(paths) >= 2:
            continue
        seen.add(key)
        log("mismatch %s: %s" % (key, trunc(d, 700)))
        paths.append(save_replay(pid, seed, 170 + len(paths), {"property": pid, "key": key, "family": "syncache", "diff": d}))
    with open(sc.path("sywalks.ndjson")) as fh:
        lines = fh.readlines()
    cov = {"family": "syncache", "states": st["distinct_states"], "transitions": st["states_generated"],
           "traces_validated_against_impl": n, "samples": [json.loads(lines[len(lines) // 2])],
           "model": {"module": "SynCache.tla", "cfg": "SynCache.cfg", "invariants": ["LockFree", "OneEntry", "Served"],
                     "refuted_variant": "SynCacheLeak.cfg (the second section returns on its repeated look-up without releasing the write lock)", "wall_s": st["wall_s"]},
           "behaviours": n, "lookups_parked_between_their_sections": rs["gated"],
           "configurations": "three concurrent look-ups over two thesauri of one mmap-opened segment, every order of their critical sections; after each behaviour one more look-up and the final Close must return (10 s) and the mapping must be gone"}
    return {"cov": cov, "paths": paths}


def syncache_replay(pid, replay):
    sc = Scratch()
    try:
        zx = build_harness(("verif",))
        obj = json.load(open(replay))
        outp, st = tlc(sc, "SynCache", cfg="SynCache.cfg", workers=4, timeout=600, outname="sy.out")
        tables = None
        for tag, payload in printed(outp, ("TABLES",)):
            tables = tables or payload
        open(sc.path("sytables.json"), "w").write(tables)
        with open(sc.path("w.ndjson"), "w") as fh:
            fh.write(json.dumps(obj["diff"]["walk"]) + "\n")
        p = subprocess.run([zx, "syncache", "-in", sc.path("w.ndjson"), "-tables", sc.path("sytables.json"), "-dir", sc.path("sysegs"),
                            "-out", sc.path("sydiffs.ndjson")], stdout=subprocess.PIPE, stderr=subprocess.STDOUT, text=True)
        diffs = read_diffs(sc.path("sydiffs.ndjson"))
        if diffs:
            log("replay: " + trunc(diffs[0], 800))
            log("VIOLATION property=%s replay=%s" % (pid, replay))
            return 1
        log("replay: no violation of %s on the current tree" % pid)
        return 0
    finally:
        sc.close()


def c11_pre(zx, sc, tier, seed, known):
    return merge_pre(ctxpool_stage(zx, sc, tier, seed, known), syncache_stage(zx, sc, tier, seed, "C11"))



# ---------------------------------------------------------------------------
# C09 (b): frozen corpus

def corpus_stage(zx, sc, tier, seed, known):
    import gzip, lifecheck
    pid = "C09"
    cdir = os.path.join(ROOT, "corpus")
    scen = sorted(d for d in os.listdir(cdir) if os.path.isdir(os.path.join(cdir, d)))
    allp = sc.path("corpus-all.ndjson")
    nfiles = 0
    with open(allp, "wb") as out:
        for s in scen:
            wd = sc.path("corpus-" + s)
            shutil.copytree(os.path.join(cdir, s), wd)
            with gzip.open(os.path.join(wd, "inputs.ndjson.gz"), "rb") as fh, open(os.path.join(wd, "inputs.ndjson"), "wb") as o:
                shutil.copyfileobj(fh, o)
            tp = sc.path("corpus-%s.ndjson" % s)
            p = subprocess.run([zx, "corpus-open", "-in", wd, "-out", tp, "-dir", sc.path("corpus-segs-" + s), "-seed", str(seed)],
                               stdout=subprocess.PIPE, stderr=subprocess.STDOUT, text=True, timeout=3600)
            if p.returncode not in (0, 3):
                raise Inconclusive("harness corpus-open failed: " + p.stdout[-1500:])
            nfiles += kv(p.stdout).get("files", 0)
            with open(tp, "rb") as fh:
                shutil.copyfileobj(fh, out)
    save = dict(lifecheck.LAYOUT)
    lifecheck.LAYOUT["on"] = "0"
    mism, acc, rej, vst = lifecheck.validate(sc, allp, "corpus.out")
    lifecheck.LAYOUT.update(save)
    paths, seen = [], set()
    items = [(m, it) for m in mism for it in m["bad"]]
    if rej is not None:
        items.append(({"l": int(str(rej).strip()), "prov": "rejected"}, ["no-spec-action"]))
    for m, it in items:
        key = "corpus/%s/%s" % (m["prov"], it[0])
        if known_open(known, lifecheck.key_of(m["prov"], it)) is not None:
            continue
        if key in seen or len(paths) >= 3:
            continue
        seen.add(key)
        log("mismatch %s (frozen file re-read by the current code): %s" % (key, trunc(it, 400)))
        paths.append(save_replay(pid, seed, 100 + len(paths), {"property": pid, "key": key, "family": "corpus", "detail": trunc(it, 3000)}))
    log("C: frozen corpus: %d scenarios, %d files written by the pinned release re-opened and validated by TLC in %.0fs; mismatching steps: %d" %
        (len(scen), nfiles, vst["wall_s"], len(mism)))
    if nfiles == 0:
        raise Inconclusive("empty corpus")
    cov = {"family": "corpus", "states": vst["distinct_states"], "transitions": vst["states_generated"], "traces_validated_against_impl": nfiles,
           "samples": [{"scenario": s, "files": sorted(f for f in os.listdir(os.path.join(cdir, s)) if f.endswith(".zap"))} for s in scen],
           "scenarios": scen, "files": nfiles}
    return {"cov": cov, "paths": paths}
