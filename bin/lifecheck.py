"""Lifecycle family (C01 C02 C03 C04 C05 C06 C10 C12 C13 C14 C15): one pipeline, per-property plans.

G  TLC explores Life.tla over the catalogue (invariants + every edge emitted as a walk)
R  a sample of the walks is replayed into the real code (harness `life-replay`)
T  seeded random scenarios are driven through the real code (harness `life`)
V  TLC validates every recorded event against Zapx/ZapData (TraceLife.tla)
"""
import re, json, os, random, subprocess, sys, time
from vlib import *

# which property a mismatch belongs to --------------------------------------

BUILT = {"dict": "C01", "posts": "C01", "posts-unprobed": "C01", "dict-unprobed": "C01",
         "count": "C02", "fields": "C02", "stored": "C02", "stored-unprobed": "C02", "docnums": "C02",
         "dvf": "C03", "dv": "C03", "dv-unprobed": "C03", "thes": "C12", "thes-unprobed": "C12",
         "vec": "C14", "vstats": "C14", "vec-unprobed": "C14"}
BUILT_ERR = {"meta": "C02", "dicts": "C01", "stored": "C02", "docnums": "C02", "dv": "C03", "thes": "C12", "vec": "C14"}
MERGED = {"dict": "C06", "posts": "C06", "posts-unprobed": "C06", "dict-unprobed": "C06",
          "count": "C05", "fields": "C05", "stored": "C05", "stored-unprobed": "C05", "docnums": "C05",
          "dvf": "C06", "dv": "C06", "dv-unprobed": "C06", "thes": "C13", "thes-unprobed": "C13",
          "vec": "C15", "vstats": "C15", "vec-unprobed": "C15",
          "footer-numdocs": "C05", "footer-chunkmode": "C05", "footer-version": "C05"}
MERGED_ERR = {"meta": "C05", "dicts": "C06", "stored": "C05", "docnums": "C05", "dv": "C06", "thes": "C13", "vec": "C15"}


def prop_of(prov, item):
    asp = item[0]
    if prov == "opened-merged-zero":
        return "C05"
    if asp in ("posts-reuse", "iter") or (asp == "err" and item[1] in ("reuse", "iter")):
        return "C07"   # postings list / iterator passed back in as preallocation
    if prov == "built":
        return BUILT_ERR.get(item[1], "C01") if asp == "err" else BUILT.get(asp, "C01")
    if prov in ("opened-built", "persist", "open-built"):
        return "C04"
    if prov == "opened-merged-zero":
        return "C05"
    if prov in ("opened-merged", "open-merged"):
        return MERGED_ERR.get(item[1], "C05") if asp == "err" else MERGED.get(asp, "C05")
    if prov in ("merge", "merge-zero"):
        if asp == "merge-error":
            return "*"   # a merge of valid inputs that fails violates whichever merge property is being checked
        return "C05"
    if prov == "layout":
        return "C09"
    if prov == "engfail":
        return "C19"
    if prov == "concurrent":
        return "C11"
    if prov == "dvwalk-built":
        return "C03"
    if prov == "dvwalk-merged":
        return "C06"
    if prov == "buildfail":
        return "*"   # a valid batch that cannot be built violates whichever lifecycle property is being checked
    if prov == "close":
        return "C20"
    return "C01"


def key_of(prov, item):
    k = prov + "/" + str(item[0])
    if item[0] == "err":
        k += "/" + str(item[1])
    return k


# plans -----------------------------------------------------------------------

def plan_for(pid, tier):
    q = tier == "quick"
    # (profile, scenarios, steps)
    common = dict(tags=("verif",), life_cfg="LifeQ.cfg" if q else "Life.cfg", walks=250 if q else 6000,
                  life_timeout=120 if q else 1500)
    P = {
        "C01": [("rich", 16 if q else 150, 5), ("mergey", 6 if q else 40, 4), ("lean", 2 if q else 8, 2), ("leanmulti", 1 if q else 3, 0), ("bounds", 1 if q else 4, 0)],
        "C02": [("stored", 16 if q else 150, 5), ("mergey", 6 if q else 40, 4), ("lean", 1 if q else 4, 2), ("bounds", 1 if q else 4, 0)],
        "C03": [("rich", 20 if q else 200, 6), ("mergey", 10 if q else 100, 6), ("lean", 2 if q else 10, 3), ("bounds", 1 if q else 4, 0)],
        "C04": [("rich", 12 if q else 100, 6), ("stored", 6 if q else 50, 5), ("mergey", 8 if q else 50, 6), ("lean", 1 if q else 4, 3), ("sweep", 1 if q else 3, 0), ("bounds", 1 if q else 4, 0)],
        "C05": [("rich", 10 if q else 120, 9), ("stored", 6 if q else 50, 8), ("mergey", 20 if q else 200, 9), ("leanmerge", 1 if q else 5, 0), ("bounds", 1 if q else 4, 0)],
        "C06": [("rich", 8 if q else 120, 10), ("mergey", 24 if q else 300, 10), ("leancross", 1 if q else 6, 0), ("leanmerge", 0 if q else 8, 0), ("wide", 1 if q else 5, 6), ("bounds", 1 if q else 4, 0)],
    }
    P["C07"] = [("rich", 16 if q else 150, 6), ("mergey", 10 if q else 100, 6), ("lean", 1 if q else 6, 3), ("wide", 1 if q else 6, 4), ("bounds", 1 if q else 4, 0)]
    P["C11"] = [("readstress", 3 if q else 30, 4 if q else 6, "race")]
    P["C12"] = [("syn", 30 if q else 300, 5), ("rich", 4 if q else 30, 4)]
    P["C13"] = [("syn", 40 if q else 400, 10)]
    if pid in ("C12", "C13"):
        common["life_cfg"] = "LifeSynQ.cfg" if q else "LifeSyn.cfg"
    P["C10"] = [("buildseq", 12 if q else 150, 8), ("buildstress", 2 if q else 12, 5, "race")]
    if pid == "C10":
        common.update(life_module="BuildPool", life_cfg="BuildPoolQ.cfg" if q else "BuildPool.cfg", replay_args=["-nogc"], attr_all=True,
                      invariants=["BuildIndependent", "AllWF"])
    P["C19"] = [("engfail", 4 if q else 12, 0)]
    if pid == "C19":
        common.update(life_cfg="LifeVecQ.cfg", tags=("verif", "vectors"), attr_all=True, walks=40)
    P["C09"] = [("mergey", 8 if q else 120, 7), ("syn", 6 if q else 80, 6), ("rich", 4 if q else 60, 5), ("wide", 1 if q else 6, 5), ("leancross", 1 if q else 2, 0), ("sweep", 1 if q else 2, 0), ("bounds", 1 if q else 4, 0)]
    if pid == "C09":
        common.update(layout=True, maxtlc=2000 if q else 30000, life_cfg="LifeSynQ.cfg" if q else "LifeSyn.cfg", walks=120 if q else 3000)
    P["C14"] = [("vec", 24 if q else 250, 5)]
    P["C15"] = [("vec", 30 if q else 300, 10), ("vecstress", 2 if q else 12, 3, "race")]
    if pid in ("C14", "C15"):
        common["life_cfg"] = "LifeVecQ.cfg" if q else "LifeVec.cfg"
        common["tags"] = ("verif", "vectors")
    common["walks"] = 500 if q else 8000
    common["walk_bias"] = "merge" if pid in ("C05", "C06", "C13", "C15") else "build"
    if pid == "C03":
        import compcheck
        common["pre"] = compcheck.c03_pre
    if pid == "C10":
        common["models"] = [("Residue", "Residue.cfg", "PooledClean", ["ResidueWrong.cfg"])]
    if pid == "C11":
        common["models"] = [("Caches", "Caches_mutex.cfg", "NoRace", ["Caches_rlock-write.cfg"]),
                            ("Caches", "Caches_rw-double-checked.cfg", "NoRace", [])]
    if pid == "C05":
        common["models"] = [("MergeStored", "MergeStored.cfg", "NamesKept", ["MergeStoredMut_lenEq.cfg", "MergeStoredMut_liveOnly.cfg"])]
    if pid == "C06":
        common["models"] = [("MergeImpl", "MergeImplQ.cfg" if q else "MergeImpl.cfg", "MergeIsRebuild", ["MergeImplMut_dropsI.cfg", "MergeImplMut_noEmptyFlush.cfg", "MergeImplMut_noNilCard.cfg"])] + \
                           ([] if q else [("MergeImpl", "MergeImpl3.cfg", "MergeIsRebuild", [])])
    if pid == "C09":
        import compcheck
        common["pre"] = compcheck.corpus_stage
    if pid == "C11":
        import compcheck
        common["pre"] = compcheck.c11_pre
        common.update(attr_all=True, walks=60 if q else 600)
    if pid == "C07":
        import compcheck
        common["pre"] = compcheck.c07_pre
    common["profiles"] = P[pid]
    common["attr"] = {pid}
    return common


ASSUMPTIONS = [
    "input domain of DESIGN 7 (one stored _id per document, AnalyzedLength>=1 with tokens, location source fields among the document's fields, no 0xFF in terms)",
    "TLC evaluates ZapData's operators correctly (the oracle); JSON trace I/O of the CommunityModules",
    "hash/crc32 of the Go standard library for the CRC of files larger than the TLC limit",
    "outputs of merges without survivors are not merged again (known finding, DESIGN 6 #5)",
]


def sample_walks(out_path, n, seed, sc, bias="build"):
    walks, cat = [], None
    for tag, payload in printed(out_path, ("WALK", "CATALOG")):
        if tag == "WALK":
            walks.append(payload)
        else:
            cat = payload
    if cat is None or not walks:
        raise Inconclusive("Life model emitted no walks")
    rnd = random.Random(seed)
    total = len(walks)
    if len(walks) > n:
        # weighted sample without replacement: walks that exercise the property's actions more are preferred
        def weight(w):
            if bias == "merge":
                return 1 + 4 * w.count('"mergeopen"') + 6 * w.count('"ins":[0,1]') + 6 * w.count('"ins":[1,0]') + 3 * w.count('"ins":[2') + 3 * w.count('"ins":[0,2')
            return 1 + 2 * w.count('"build"') + w.count('"persistopen"')
        keyed = sorted(range(total), key=lambda i: rnd.random() ** (1.0 / weight(walks[i])), reverse=True)[:n]
        walks = [walks[i] for i in sorted(keyed)]
    with open(sc.path("walks.ndjson"), "w") as fh:
        fh.write("\n".join(walks) + "\n")
    with open(sc.path("cat.json"), "w") as fh:
        fh.write(cat)
    return total, walks


RACES = []


def harness(zx, args, sc, timeout=1800):
    p = subprocess.run([zx] + args, cwd=sc.dir, stdout=subprocess.PIPE, stderr=subprocess.STDOUT, text=True, timeout=timeout)
    if "WARNING: DATA RACE" in p.stdout:
        # the race detector has no false positives; a race inside the library is a verdict (DESIGN 8.3)
        RACES.append(p.stdout[p.stdout.index("WARNING: DATA RACE"):][:6000])
        return p.stdout
    if p.returncode == 3:
        # the watchdog ended the run inside a call of the code under test; the trace ends with an abort event
        log("harness: " + p.stdout.strip()[-300:])
        return p.stdout
    if p.returncode != 0:
        crash = [ln for ln in p.stdout.splitlines() if ln.startswith(("fatal error:", "panic:", "unexpected fault address", "runtime: out of memory"))]
        inlib = "/zapx/" in p.stdout or (REPO + "/") in p.stdout or "zapx/v16." in p.stdout
        if crash and inlib and "-out" in args:
            # the code under test brought the process down (unrecoverable runtime error inside the library):
            # the trace ends with an abort record, which no action of the specification explains
            tp = args[args.index("-out") + 1]
            with open(tp, "a") as fh:
                fh.write(json.dumps({"ev": "abort", "op": "crash", "why": crash[0][:300]}) + "\n")
            log("harness: the library crashed the process: " + crash[0][:200])
            return p.stdout
        raise Inconclusive("harness %s failed rc=%d: %s ... %s" % (args[0], p.returncode, p.stdout[:600], p.stdout[-800:]))
    return p.stdout


LAYOUT = {"on": "0", "leafdec": ""}


def validate(sc, trace, name, timeout=3000):
    """TLC validation of a trace; returns (mismatches, accepted, rejected_at, stats).

    With the layout decoder on, a file that is not laid out as documented can stop the evaluation inside
    ZapLayout (an index beyond a table, an impossible count).  That is itself the answer for that file
    (not decodable from the documented layout): it is recorded as a layout mismatch of that event, the
    file is taken out of the trace and the validation is repeated, so that the rest is still checked."""
    extra = []
    for attempt in range(16):
        outp, st = tlc(sc, "TraceLife", cfg="TraceLife.cfg", env={"TRACE": trace, "LAYOUT": LAYOUT["on"], "LEAFDEC": LAYOUT["leafdec"]},
                       workers=1, timeout=timeout, outname=name)
        mism, accepted, rej = [], None, None
        for tag, payload in printed(outp, ("MISMATCH", "ACCEPTED", "REJECTED-AT")):
            if tag == "MISMATCH":
                mism.append(json.loads(payload))
            elif tag == "ACCEPTED":
                accepted = payload
            else:
                rej = payload
        errs = tlc_errors(outp)
        if accepted is None and rej is None and LAYOUT["on"] == "1" and attempt < 15:
            txt = open(outp, errors="replace").read()
            k = txt.find("TLC threw an unexpected exception")
            at = re.findall(r"^/\\ l = (\d+)$", txt[k:], re.M) if k >= 0 else []
            if k >= 0 and at:   # (if the file was not the cause, the exception returns on the retry and the run is inconclusive)
                ln = int(at[-1])
                lines = open(trace).read().splitlines()
                ev = json.loads(lines[ln - 1])
                if ev.get("ev") in ("persist", "merge") and ev.get("bytes"):
                    what = txt[k:k + 400].split("\n")
                    extra.append({"l": ln, "prov": "layout", "bad": [["layout-undecodable", " ".join(x.strip() for x in what[3:6])[:160]]]})
                    ev["bytes"], ev["path"] = [], ""
                    lines[ln - 1] = json.dumps(ev, separators=(",", ":"))
                    with open(trace, "w") as fh:
                        fh.write("\n".join(lines) + "\n")
                    continue
        if accepted is None and rej is None:
            raise Inconclusive("TLC neither accepted nor rejected the trace: %s\n%s" % (errs[:3], st["tail"]))
        return sorted(mism + extra, key=lambda m: m["l"]), accepted, rej, st


def scenario_slice(trace, l):
    """lines of the scenario (from the last reset) that contains 1-based line l, up to l."""
    lines = []
    with open(trace) as fh:
        for i, line in enumerate(fh, 1):
            if i > l:
                break
            if line.startswith('{"ev":"reset"'):
                lines = []
            lines.append(line)
    return lines


def process_prefix(trace, l, ranges):
    """lines of the harness process that produced 1-based line l, from its first line up to l."""
    lo = 1
    for a, b, _ in ranges:
        if a <= l <= b:
            lo = a
    out = []
    with open(trace) as fh:
        for i, line in enumerate(fh, 1):
            if i > l:
                break
            if i >= lo:
                out.append(line)
    return out


def trace_stats(trace):
    st = {"events": 0, "scenarios": 0, "builds": 0, "merges": 0, "opens": 0, "persists": 0, "max_docs": 0,
          "zero_survivor_merges": 0, "distinct_inputs": 0}
    seen = set()
    samples = []
    with open(trace) as fh:
        for line in fh:
            st["events"] += 1
            ev = line[7:14]
            if line.startswith('{"ev":"reset"'):
                st["scenarios"] += 1
            elif line.startswith('{"ev":"build"'):
                st["builds"] += 1
                i = line.find('"obs"')
                seen.add(hashlib.md5(line[:i].encode()).hexdigest())
                if len(samples) < 2 and len(line) < 6000:
                    e = json.loads(line)
                    samples.append({"ev": "build", "mode": e["mode"], "docs": len(e["batch"]),
                                    "ids": [bstr(d["id"]) for d in e["batch"]][:6],
                                    "fields": [bstr(f) for f in e["obs"]["fields"]]})
                j = line.find('"count":', i)
                if j > 0:
                    try:
                        st["max_docs"] = max(st["max_docs"], int(line[j + 8:line.find(",", j)]))
                    except ValueError:
                        pass
            elif line.startswith('{"ev":"merge"'):
                st["merges"] += 1
                e = json.loads(line)
                seen.add(hashlib.md5(json.dumps([e["ins"], e["drops"], e["mode"]]).encode()).hexdigest() + str(st["scenarios"]))
                if all(x < 0 for row in e["maps"] for x in row):
                    st["zero_survivor_merges"] += 1
                if len(samples) < 4:
                    samples.append({"ev": "merge", "ins": e["ins"], "drops": e["drops"], "mode": e["mode"]})
            elif line.startswith('{"ev":"open"'):
                st["opens"] += 1
            elif line.startswith('{"ev":"persist"'):
                st["persists"] += 1
    st["distinct_inputs"] = len(seen)
    return st, samples


def run_life_check(pid, tier, seed, replay=None, pre=None):
    """A violation confirmed by a component stage stands whatever happens afterwards: if the lifecycle stage then
    fails or runs out of time (a library that went wrong can make it very slow), the check still reports it."""
    state = {}
    t0 = time.time()
    try:
        return _run_life_check(pid, tier, seed, replay, pre, state)
    except Exception as e:
        p = state.get("pre")
        if not (p and p.get("paths")):
            raise
        log("note: the lifecycle stage did not complete (%s); reporting the violations of the component stage" % str(e)[:200])
        cov = dict(p["cov"])
        cov["lifecycle_stage"] = "not completed: " + str(e)[:300]
        write_evidence(pid, tier, seed, cov, ASSUMPTIONS, time.time() - t0, len(p["paths"]))
        for path in p["paths"]:
            log("VIOLATION property=%s replay=%s" % (pid, path))
        return 1


def _run_life_check(pid, tier, seed, replay, pre, state):
    t0 = time.time()
    plan = plan_for(pid, tier)
    known = load_known()
    sc = Scratch()
    try:
        zx = build_harness(plan["tags"])
        if plan.get("layout"):
            LAYOUT["on"], LAYOUT["leafdec"] = "1", zx
        margs = ["-maxtlc", str(plan["maxtlc"])] if plan.get("maxtlc") else []
        plan["replay_args"] = plan.get("replay_args", []) + margs
        if replay:
            return do_replay(pid, zx, sc, replay, known, plan)
        if pre is None and plan.get("pre"):
            pre = plan["pre"](zx, sc, tier, seed, known)
        state["pre"] = pre
        # G
        module = plan.get("life_module", "Life")
        outp, lst = tlc(sc, module, cfg=plan["life_cfg"], workers=8, timeout=plan["life_timeout"], outname="life.out")
        errs = tlc_errors(outp)
        if errs:
            raise Inconclusive("Life model: " + "; ".join(errs[:3]))
        total_walks, walks = sample_walks(outp, plan["walks"], seed, sc, plan["walk_bias"])
        os.remove(outp)
        extra_models = []
        for (mmod, mcfg, minv, mmuts) in plan.get("models", []):
            mo, mst = tlc(sc, mmod, cfg=mcfg, workers=8, timeout=3000, outname="m-%s.out" % mcfg)
            if tlc_errors(mo):
                raise Inconclusive("%s (%s): %s" % (mmod, mcfg, "; ".join(tlc_errors(mo)[:2])))
            for mc in mmuts:
                xo, _ = tlc(sc, mmod, cfg=mc, workers=4, timeout=900, outname="m-%s.out" % mc)
                if not any(minv + " is violated" in e for e in tlc_errors(xo)):
                    raise Inconclusive("%s: the wrong variant %s is not refuted" % (mmod, mc))
            log("G: %s(%s): %d states, %s holds; wrong variants refuted: %s" % (mmod, mcfg, mst["distinct_states"], minv, ", ".join(mmuts) or "-"))
            extra_models.append({"module": mmod + ".tla", "cfg": mcfg, "invariant": minv, "distinct_states": mst["distinct_states"],
                                 "states_generated": mst["states_generated"], "refuted_variants": mmuts, "wall_s": mst["wall_s"]})
        log("G: " + module + "(%s) %d distinct states, %d edges; %d walks sampled" % (plan["life_cfg"], lst["distinct_states"], lst["states_generated"], len(walks)))
        # R
        traces = [sc.path("t-walks.ndjson")]
        invocations = []
        invocations.append((zx, ["life-replay", "-in", sc.path("walks.ndjson"), "-catalog", sc.path("cat.json"), "-seed", str(seed)] + plan.get("replay_args", [])))
        log("R: " + harness(zx, ["life-replay", "-in", sc.path("walks.ndjson"), "-catalog", sc.path("cat.json"),
                                  "-out", traces[0], "-seed", str(seed), "-dir", sc.path("segs0")] + plan.get("replay_args", []), sc).strip())
        # T
        zxr = None
        for k, ent in enumerate(plan["profiles"]):
            prof, n, steps = ent[0], ent[1], ent[2]
            if n == 0:
                invocations.append((zx, []))
                traces.append(None)
                continue
            tp = sc.path("t-%s.ndjson" % prof)
            exe = zx
            if "race" in ent[3:]:
                zxr = zxr or build_harness(plan["tags"], race=True)
                exe = zxr
            pargs = margs
            if prof in ("wide", "leancross", "bounds") and margs:
                pargs = ["-maxtlc", "400000" if prof == "leancross" else "60000"]   # the point of these files is their byte layout (field ids above 127)
            invocations.append((exe, ["life", "-profile", prof, "-n", str(n), "-steps", str(steps), "-seed", str(seed * 1000 + k)] + pargs))
            log("T: %s " % prof + harness(exe, ["life", "-profile", prof, "-n", str(n), "-steps", str(steps), "-seed", str(seed * 1000 + k),
                                            "-out", tp, "-dir", sc.path("segs%d" % (k + 1))] + pargs, sc).strip())
            traces.append(tp)
        allp = sc.path("all.ndjson")
        ranges = []  # (first line, last line) of each harness process within the concatenated trace
        nl = 0
        with open(allp, "wb") as out:
            for tp in traces:
                n0 = nl
                if tp is None:
                    ranges.append((0, -1, (zx, [])))
                    continue
                with open(tp, "rb") as fh:
                    for line in fh:
                        if not (line.startswith(b'{"ev":') and line.rstrip().endswith(b"}")) or b":null" in line:
                            # a damaged line: the harness process died while writing; what it was doing is
                            # reported like a watchdog abort (no action of the specification explains it)
                            line = b'{"ev":"abort","op":"unknown","why":"the harness process ended abnormally"}\n'
                        out.write(line)
                        nl += 1
                ranges.append((n0 + 1, nl, invocations[len(ranges)]))
        # V
        mism, accepted, rej, vst = validate(sc, allp, "trace.out")
        tst, samples = trace_stats(allp)
        log("V: %d events, %d scenarios validated in %.0fs; mismatching steps: %d" % (tst["events"], tst["scenarios"], vst["wall_s"], len(mism)))
        viol, kf, notes = classify(pid, plan, mism, known)
        if rej is not None:
            # a line no action of the specification explains
            viol.append({"l": int(str(rej).strip()), "prov": "rejected", "item": ["no-spec-action"], "key": "rejected/no-spec-action"})
        for k in sorted(kf):
            log("KNOWN-FINDING: property=%s %s (%s; %d occurrences)" % (kf[k][0]["property"], kf[k][0]["what"], k, kf[k][1]))
        for n in sorted(notes):
            log("NOTE: mismatch attributed to %s, not to this check: %s x%d" % (n[0], n[1], notes[n]))
        confirmed = confirm(pid, zx, sc, allp, viol, known, plan, seed, ranges, pre=pre)
        for i, r in enumerate(RACES[:2]):
            if "/zapx/" in r or REPO in r:
                log("data race reported by the race detector inside the library:\n" + r[:1500])
                confirmed.append(save_replay(pid, seed, 50 + i, {"property": pid, "key": "race/datarace", "family": "life", "report": r, "events": []}))
        cov = {"states": lst["distinct_states"] + vst["distinct_states"] + sum(m["distinct_states"] for m in extra_models),
               "transitions": lst["states_generated"] + vst["states_generated"] + sum(m["states_generated"] for m in extra_models),
               "traces_validated_against_impl": tst["scenarios"],
               "samples": [json.loads(w) for w in walks[:2]] + samples,
               "model": {"module": module + ".tla", "cfg": plan["life_cfg"], "distinct_states": lst["distinct_states"], "edges": lst["states_generated"],
                         "invariants": plan.get("invariants", ["AllWF", "AllObsConsistent", "OpenedEqualsFile"]), "wall_s": lst["wall_s"]},
               "operational_models": extra_models,
               "walks_emitted": total_walks, "walks_replayed": len(walks),
               "trace": tst, "trace_validation": {"module": "TraceLife.tla", "events_consumed": tst["events"], "wall_s": vst["wall_s"],
                                                  "mismatching_steps": len(mism)},
               "evaluations": tst["events"], "distinct_nontrivial": tst["distinct_inputs"],
               "rule": "events = public calls logged with complete observation; distinct = distinct (batch, mode) builds and (inputs, drops, mode) merges",
               "known_findings_seen": sorted(kf), "exhaustive": False}
        if pre:
            # results of a component stage run before the lifecycle stage (same property)
            cov["states"] += pre["cov"].get("states", 0)
            cov["transitions"] += pre["cov"].get("transitions", 0)
            cov["traces_validated_against_impl"] += pre["cov"].get("traces_validated_against_impl", 0)
            cov["samples"] = pre["cov"].get("samples", []) + cov["samples"]
            cov["component"] = pre["cov"]
            confirmed = pre["paths"] + confirmed
        write_evidence(pid, tier, seed, cov, ASSUMPTIONS, time.time() - t0, len(confirmed))
        if confirmed:
            for path in confirmed:
                log("VIOLATION property=%s replay=%s" % (pid, path))
            return 1
        log("OK %s: held on everything explored (%.0fs)" % (pid, time.time() - t0))
        return 0
    finally:
        sc.close()


def classify(pid, plan, mism, known):
    viol, kf, notes = [], {}, {}
    for m in mism:
        for item in m["bad"]:
            key = key_of(m["prov"], item)
            k = known_open(known, key)
            prop = prop_of(m["prov"], item)
            if k is not None:
                if k["property"] == pid or prop in plan["attr"]:
                    kf.setdefault(key, [k, 0])[1] += 1
                continue
            if prop in plan["attr"] or prop == "*" or plan.get("attr_all"):
                viol.append({"l": m["l"], "prov": m["prov"], "item": item, "key": key})
            else:
                notes[(prop, key)] = notes.get((prop, key), 0) + 1
    return viol, kf, notes


def confirm(pid, zx, sc, trace, viol, known, plan, seed, ranges, limit=3, pre=None):
    """Re-runs the scenario of each violation candidate from its recorded inputs; reports only reproduced ones."""
    confirmed, seen, unrepro = [], set(), []
    for v in viol:
        if v["key"] in seen or len(confirmed) >= limit:
            continue
        seen.add(v["key"])
        lines = scenario_slice(trace, v["l"])
        sl = sc.path("slice.ndjson")
        with open(sl, "w") as fh:
            fh.writelines(lines)
        def reproduced(again):
            if v["prov"] == "rejected":
                return again[2] is not None
            return any(key_of(m["prov"], it) == v["key"] for m in again[0] for it in m["bad"])
        same = reproduced(rerun_slice(zx, sc, sl))
        if not same:
            # the scenario alone does not show it: the behaviour may depend on what the process did before
            # (pooled builders, caches) - re-run the whole history of that harness process up to the line
            lines = process_prefix(trace, v["l"], ranges)
            with open(sl, "w") as fh:
                fh.writelines(lines)
            same = reproduced(rerun_slice(zx, sc, sl))
            if same:
                log("note: %s needs the preceding history of the process to manifest (%d events replayed)" % (v["key"], len(lines)))
        if not same and v["l"] > 0:
            # last resort: run the harness invocation that produced the line once more (same seed, same arguments)
            for a, b, (exe, args) in ranges:
                if a <= v["l"] <= b:
                    tp = sc.path("again.ndjson")
                    harness(exe, args + ["-out", tp, "-dir", sc.path("segs-again")], sc)
                    m2, _, rej2, _ = validate(sc, tp, "again.out", timeout=1500)
                    same = any(key_of(m["prov"], it) == v["key"] for m in m2 for it in m["bad"]) or (v["prov"] == "rejected" and rej2 is not None)
                    if same:
                        log("note: %s reproduced by running the same harness invocation again" % v["key"])
                        lines = process_prefix(trace, v["l"], ranges)[-200:]
        conc_scen = False
        try:
            conc_scen = json.loads(scenario_slice(trace, v["l"])[0]).get("tag", "").startswith(("buildstress", "readstress"))
        except Exception:
            pass
        if not same and (v["prov"] == "concurrent" or conc_scen):
            # schedule-dependent: the recorded execution itself is the evidence (the oracle is deterministic)
            log("note: %s was observed under concurrency and does not reproduce sequentially" % v["key"])
            lines = scenario_slice(trace, v["l"])
            same = True
        if not same:
            log("UNREPRODUCED: %s at line %d did not reproduce from its inputs (treated as inconclusive)" % (v["key"], v["l"]))
            unrepro.append(v["key"])
            continue
        path = save_replay(pid, seed, len(confirmed), {"property": pid, "key": v["key"], "prov": v["prov"], "detail": trunc(v["item"], 2000),
                                                       "family": "life", "events": [json.loads(x) for x in lines]})
        log("mismatch %s at trace line %d: %s" % (v["key"], v["l"], trunc(v["item"])))
        confirmed.append(path)
    if unrepro and not confirmed and not (pre and pre["paths"]):
        raise Inconclusive("violation candidates did not reproduce: %s" % ", ".join(unrepro))
    return confirmed


def rerun_slice(zx, sc, sl):
    tp = sc.path("rerun.ndjson")
    harness(zx, ["life-rerun", "-in", sl, "-out", tp, "-dir", sc.path("segsr")] + (["-maxtlc", "30000"] if LAYOUT["on"] == "1" else []), sc)
    mism, acc, rej, st = validate(sc, tp, "rerun.out", timeout=900)
    return mism, acc, rej


def do_replay(pid, zx, sc, path, known, plan):
    obj = json.load(open(path))
    sl = sc.path("slice.ndjson")
    with open(sl, "w") as fh:
        for e in obj["events"]:
            fh.write(json.dumps(e) + "\n")
    mism, acc, rej = rerun_slice(zx, sc, sl)
    viol, kf, notes = classify(pid, plan, mism, known)
    if rej is not None:
        viol.append({"key": "rejected/no-spec-action"})
    for v in viol:
        log("replay: %s %s" % (v["key"], trunc(v.get("item", ""))))
    if viol:
        log("VIOLATION property=%s replay=%s" % (pid, path))
        return 1
    log("replay: no violation of %s on the current tree" % pid)
    return 0
