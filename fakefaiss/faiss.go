// Package faiss is a pure-Go engine double for github.com/blevesearch/go-faiss
// (the subset of its API that zapx uses).  The native FAISS library is not
// available in the verification sandbox; this double honours the go-faiss
// contract (exact flat index, a deterministic coarse-quantised IVF index that
// is approximate like the real one, id selectors, reconstruction,
// serialisation) and is instrumented: live / closed / used-after-close
// indexes, a call log, and injection of a failure at the n-th call of an
// operation.  It is part of the trusted base of the checks for the vector
// properties (DESIGN 3.7).
package faiss

import (
	"encoding/binary"
	"encoding/json"
	"errors"
	"fmt"
	"math"
	"sort"
	"strconv"
	"strings"
	"sync"
)

const (
	MetricInnerProduct = 0
	MetricL2           = 1
)

const (
	IOFlagMmap         = 1
	IOFlagReadOnly     = 2
	IOFlagReadMmap     = 0x646f0000 | 4
	IOFlagSkipPrefetch = 16
)

// ---------------------------------------------------------------------------
// instrumentation

type Stats struct {
	Created       int
	Live          int
	Closed        int
	DoubleClosed  int
	UsedAfterFree int
	LiveIDs       []int
}

var (
	mu      sync.Mutex
	nextID  int
	live    = map[int]*index{}
	stats   Stats
	callLog []string
	calls   = map[string]int{}
	failNth = map[string]int{}
)

// VerifReset clears counters, call log and failure plans (live indexes stay registered).
func VerifReset() {
	mu.Lock()
	defer mu.Unlock()
	stats = Stats{}
	callLog = nil
	calls = map[string]int{}
	failNth = map[string]int{}
}

// VerifStats returns the engine-side counters.
func VerifStats() Stats {
	mu.Lock()
	defer mu.Unlock()
	s := stats
	s.Live = len(live)
	for id := range live {
		s.LiveIDs = append(s.LiveIDs, id)
	}
	sort.Ints(s.LiveIDs)
	return s
}

// VerifFailNth makes the n-th call (1-based, counted from now) of operation op fail.
func VerifFailNth(op string, n int) {
	mu.Lock()
	defer mu.Unlock()
	calls[op] = 0
	failNth[op] = n
}

// VerifCallLog returns the operations called since the last reset.
func VerifCallLog() []string {
	mu.Lock()
	defer mu.Unlock()
	return append([]string(nil), callLog...)
}

var ErrInjected = errors.New("faiss double: injected engine failure")

// enter logs a call; returns an error when a failure is planned for it.
func enter(op string) error {
	mu.Lock()
	defer mu.Unlock()
	callLog = append(callLog, op)
	calls[op]++
	if n, ok := failNth[op]; ok && n == calls[op] {
		return ErrInjected
	}
	return nil
}

// ---------------------------------------------------------------------------

type Index interface {
	D() int
	IsTrained() bool
	Ntotal() int64
	MetricType() int
	Train(x []float32) error
	Add(x []float32) error
	AddWithIDs(x []float32, xids []int64) error
	IsIVFIndex() bool
	ObtainClusterVectorCountsFromIVFIndex(vecIDs []int64) (map[int64]int64, error)
	ObtainClustersWithDistancesFromIVFIndex(x []float32, centroidIDs []int64) ([]int64, []float32, error)
	Search(x []float32, k int64) (distances []float32, labels []int64, err error)
	SearchWithoutIDs(x []float32, k int64, exclude []int64, params json.RawMessage) (distances []float32, labels []int64, err error)
	SearchWithIDs(x []float32, k int64, include []int64, params json.RawMessage) (distances []float32, labels []int64, err error)
	SearchClustersFromIVFIndex(selector Selector, eligibleCentroidIDs []int64, minEligibleCentroids int, k int64, x, centroidDis []float32,
		params json.RawMessage) ([]float32, []int64, error)
	Reconstruct(key int64) ([]float32, error)
	ReconstructBatch(keys []int64, recons []float32) ([]float32, error)
	Reset() error
	Close()
	Size() uint64
}

type IndexImpl struct {
	Index
}

type index struct {
	id      int
	d       int
	metric  int
	ivf     bool
	nlist   int
	nprobe  int32
	trained bool
	cents   [][]float32
	ids     []int64
	vecs    [][]float32
	assign  []int
	closed  bool
	dmap    int
}

func register(ix *index) *IndexImpl {
	mu.Lock()
	nextID++
	ix.id = nextID
	live[ix.id] = ix
	stats.Created++
	mu.Unlock()
	return &IndexImpl{ix}
}

// use records a use of the index; using a closed index is counted (the native library would crash).
func (ix *index) use() {
	mu.Lock()
	if ix.closed {
		stats.UsedAfterFree++
	}
	mu.Unlock()
}

func IndexFactory(d int, description string, metric int) (*IndexImpl, error) {
	if err := enter("IndexFactory"); err != nil {
		return nil, err
	}
	ix := &index{d: d, metric: metric, nprobe: 1}
	switch {
	case description == "IDMap2,Flat" || description == "Flat" || description == "IDMap,Flat":
		ix.trained = true
	case strings.HasPrefix(description, "IVF"):
		parts := strings.SplitN(description[3:], ",", 2)
		n, err := strconv.Atoi(parts[0])
		if err != nil || n <= 0 {
			return nil, fmt.Errorf("faiss double: bad index description %q", description)
		}
		ix.ivf, ix.nlist = true, n
	default:
		return nil, fmt.Errorf("faiss double: unsupported index description %q", description)
	}
	return register(ix), nil
}

func SetOMPThreads(n uint) {}

func (ix *index) D() int          { ix.use(); return ix.d }
func (ix *index) IsTrained() bool { ix.use(); return ix.trained }
func (ix *index) Ntotal() int64   { ix.use(); return int64(len(ix.ids)) }
func (ix *index) MetricType() int { ix.use(); return ix.metric }
func (ix *index) IsIVFIndex() bool {
	ix.use()
	return ix.ivf
}
func (ix *index) Size() uint64 {
	ix.use()
	return uint64(len(ix.ids)*(8+4*ix.d) + 64)
}

func (ix *index) Close() {
	mu.Lock()
	defer mu.Unlock()
	if ix.closed {
		stats.DoubleClosed++
		return
	}
	ix.closed = true
	stats.Closed++
	delete(live, ix.id)
}

func (ix *index) Reset() error {
	ix.use()
	ix.ids, ix.vecs, ix.assign = nil, nil, nil
	return nil
}

func (ix *IndexImpl) SetDirectMap(mapType int) error {
	if err := enter("SetDirectMap"); err != nil {
		return err
	}
	i := ix.Index.(*index)
	i.use()
	if !i.ivf {
		return errors.New("faiss double: direct map on a non-IVF index")
	}
	i.dmap = mapType
	return nil
}

func (ix *IndexImpl) SetNProbe(nprobe int32) {
	i := ix.Index.(*index)
	i.use()
	i.nprobe = nprobe
}

func (ix *IndexImpl) GetNProbe() int32 {
	i := ix.Index.(*index)
	i.use()
	return i.nprobe
}

func (ix *index) dist(a, b []float32) float32 {
	var s float32
	if ix.metric == MetricL2 {
		for i := range a {
			d := a[i] - b[i]
			s += d * d
		}
		return s
	}
	for i := range a {
		s += a[i] * b[i]
	}
	return s
}

// better reports whether score a ranks before score b under the index's metric.
func (ix *index) better(a, b float32) bool {
	if ix.metric == MetricL2 {
		return a < b
	}
	return a > b
}

func l2(a, b []float32) float32 {
	var s float32
	for i := range a {
		d := a[i] - b[i]
		s += d * d
	}
	return s
}

// Train picks nlist centroids deterministically (evenly spaced training vectors).
func (ix *index) Train(x []float32) error {
	if err := enter("Train"); err != nil {
		return err
	}
	ix.use()
	if !ix.ivf {
		return nil
	}
	n := len(x) / ix.d
	if n == 0 {
		return errors.New("faiss double: training on no vectors")
	}
	ix.cents = nil
	for c := 0; c < ix.nlist; c++ {
		j := (c * n) / ix.nlist
		ix.cents = append(ix.cents, append([]float32(nil), x[j*ix.d:(j+1)*ix.d]...))
	}
	ix.trained = true
	return nil
}

func (ix *index) nearestCentroid(v []float32) int {
	best, bd := 0, float32(math.MaxFloat32)
	for c, ce := range ix.cents {
		if d := l2(v, ce); d < bd {
			best, bd = c, d
		}
	}
	return best
}

func (ix *index) Add(x []float32) error {
	ids := make([]int64, len(x)/ix.d)
	for i := range ids {
		ids[i] = int64(len(ix.ids) + i)
	}
	return ix.AddWithIDs(x, ids)
}

func (ix *index) AddWithIDs(x []float32, xids []int64) error {
	if err := enter("AddWithIDs"); err != nil {
		return err
	}
	ix.use()
	if ix.ivf && !ix.trained {
		return errors.New("faiss double: index not trained")
	}
	if ix.ivf && ix.dmap == 0 {
		return errors.New("faiss double: add_with_ids needs a direct map")
	}
	if len(x) != len(xids)*ix.d {
		return errors.New("faiss double: vector data and ids disagree")
	}
	for i, id := range xids {
		v := append([]float32(nil), x[i*ix.d:(i+1)*ix.d]...)
		ix.ids = append(ix.ids, id)
		ix.vecs = append(ix.vecs, v)
		if ix.ivf {
			ix.assign = append(ix.assign, ix.nearestCentroid(v))
		}
	}
	return nil
}

type hit struct {
	id int64
	s  float32
}

// topK returns the k best of the candidate positions, padded with label -1 like the native library.
func (ix *index) topK(x []float32, k int64, cand []int) ([]float32, []int64) {
	hs := make([]hit, 0, len(cand))
	for _, p := range cand {
		hs = append(hs, hit{ix.ids[p], ix.dist(x, ix.vecs[p])})
	}
	sort.SliceStable(hs, func(i, j int) bool { return ix.better(hs[i].s, hs[j].s) })
	ds := make([]float32, k)
	ls := make([]int64, k)
	for i := range ls {
		if i < len(hs) {
			ds[i], ls[i] = hs[i].s, hs[i].id
		} else {
			ls[i] = -1
			if ix.metric == MetricL2 {
				ds[i] = math.MaxFloat32
			} else {
				ds[i] = -math.MaxFloat32
			}
		}
	}
	return ds, ls
}

// probed returns the positions the (approximate) IVF search looks at: the nprobe clusters nearest to x.
func (ix *index) probed(x []float32, nprobe int) map[int]bool {
	type cd struct {
		c int
		d float32
	}
	cs := make([]cd, len(ix.cents))
	for c, ce := range ix.cents {
		cs[c] = cd{c, l2(x, ce)}
	}
	sort.SliceStable(cs, func(i, j int) bool { return cs[i].d < cs[j].d })
	in := map[int]bool{}
	for i := 0; i < nprobe && i < len(cs); i++ {
		in[cs[i].c] = true
	}
	return in
}

func (ix *index) candidates(x []float32, pass func(id int64) bool) []int {
	var clusters map[int]bool
	if ix.ivf {
		clusters = ix.probed(x, int(ix.nprobe))
	}
	cand := []int{}
	for p, id := range ix.ids {
		if ix.ivf && !clusters[ix.assign[p]] {
			continue
		}
		if pass == nil || pass(id) {
			cand = append(cand, p)
		}
	}
	return cand
}

func (ix *index) checkQuery(x []float32, k int64) error {
	if len(x) != ix.d {
		return errors.New("faiss double: query dimension mismatch")
	}
	if k < 0 {
		return errors.New("faiss double: negative k")
	}
	return nil
}

func (ix *index) Search(x []float32, k int64) ([]float32, []int64, error) {
	return ix.SearchWithoutIDs(x, k, nil, nil)
}

func (ix *index) SearchWithoutIDs(x []float32, k int64, exclude []int64, params json.RawMessage) ([]float32, []int64, error) {
	if err := enter("Search"); err != nil {
		return nil, nil, err
	}
	ix.use()
	if err := ix.checkQuery(x, k); err != nil {
		return nil, nil, err
	}
	ex := map[int64]bool{}
	for _, id := range exclude {
		ex[id] = true
	}
	ds, ls := ix.topK(x, k, ix.candidates(x, func(id int64) bool { return !ex[id] }))
	return ds, ls, nil
}

func (ix *index) SearchWithIDs(x []float32, k int64, include []int64, params json.RawMessage) ([]float32, []int64, error) {
	if err := enter("Search"); err != nil {
		return nil, nil, err
	}
	ix.use()
	if err := ix.checkQuery(x, k); err != nil {
		return nil, nil, err
	}
	in := map[int64]bool{}
	for _, id := range include {
		in[id] = true
	}
	ds, ls := ix.topK(x, k, ix.candidates(x, func(id int64) bool { return in[id] }))
	return ds, ls, nil
}

func (ix *index) ObtainClusterVectorCountsFromIVFIndex(vecIDs []int64) (map[int64]int64, error) {
	ix.use()
	if !ix.ivf {
		return nil, errors.New("faiss double: not an IVF index")
	}
	pos := map[int64]int{}
	for p, id := range ix.ids {
		pos[id] = p
	}
	out := map[int64]int64{}
	for _, id := range vecIDs {
		if p, ok := pos[id]; ok {
			out[int64(ix.assign[p])]++
		}
	}
	return out, nil
}

func (ix *index) ObtainClustersWithDistancesFromIVFIndex(x []float32, centroidIDs []int64) ([]int64, []float32, error) {
	ix.use()
	if !ix.ivf {
		return nil, nil, errors.New("faiss double: not an IVF index")
	}
	type cd struct {
		c int64
		d float32
	}
	cs := []cd{}
	for _, c := range centroidIDs {
		if c < 0 || int(c) >= len(ix.cents) {
			return nil, nil, errors.New("faiss double: unknown centroid")
		}
		cs = append(cs, cd{c, l2(x, ix.cents[c])})
	}
	sort.SliceStable(cs, func(i, j int) bool { return cs[i].d < cs[j].d })
	ids := make([]int64, len(cs))
	ds := make([]float32, len(cs))
	for i, c := range cs {
		ids[i], ds[i] = c.c, c.d
	}
	return ids, ds, nil
}

func (ix *index) SearchClustersFromIVFIndex(selector Selector, eligibleCentroidIDs []int64, minEligibleCentroids int, k int64,
	x, centroidDis []float32, params json.RawMessage) ([]float32, []int64, error) {
	if err := enter("Search"); err != nil {
		return nil, nil, err
	}
	ix.use()
	if !ix.ivf {
		return nil, nil, errors.New("faiss double: not an IVF index")
	}
	if err := ix.checkQuery(x, k); err != nil {
		return nil, nil, err
	}
	in := map[int]bool{}
	for i := 0; i < minEligibleCentroids && i < len(eligibleCentroidIDs); i++ {
		in[int(eligibleCentroidIDs[i])] = true
	}
	cand := []int{}
	for p, id := range ix.ids {
		if in[ix.assign[p]] && (selector == nil || selector.isMember(id)) {
			cand = append(cand, p)
		}
	}
	ds, ls := ix.topK(x, k, cand)
	return ds, ls, nil
}

func (ix *index) Reconstruct(key int64) ([]float32, error) {
	r, err := ix.ReconstructBatch([]int64{key}, nil)
	return r, err
}

func (ix *index) ReconstructBatch(keys []int64, recons []float32) ([]float32, error) {
	if err := enter("ReconstructBatch"); err != nil {
		return nil, err
	}
	ix.use()
	pos := map[int64]int{}
	for p, id := range ix.ids {
		pos[id] = p
	}
	out := recons[:0]
	for _, k := range keys {
		p, ok := pos[k]
		if !ok {
			return nil, fmt.Errorf("faiss double: no vector with id %d", k)
		}
		out = append(out, ix.vecs[p]...)
	}
	return out, nil
}

// ---------------------------------------------------------------------------
// selectors

type Selector interface {
	Delete()
	isMember(id int64) bool
}

type idSelector struct {
	set map[int64]bool
	not bool
}

func (s *idSelector) Delete()                {}
func (s *idSelector) isMember(id int64) bool { return s.set[id] != s.not }

func NewIDSelectorBatch(indices []int64) (Selector, error) {
	s := &idSelector{set: map[int64]bool{}}
	for _, id := range indices {
		s.set[id] = true
	}
	return s, nil
}

func NewIDSelectorNot(exclude []int64) (Selector, error) {
	s := &idSelector{set: map[int64]bool{}, not: true}
	for _, id := range exclude {
		s.set[id] = true
	}
	return s, nil
}

// ---------------------------------------------------------------------------
// serialisation

var magic = []byte("FxDbl1\x00\x00")

func WriteIndexIntoBuffer(idx Index) ([]byte, error) {
	if err := enter("WriteIndexIntoBuffer"); err != nil {
		return nil, err
	}
	var ix *index
	switch v := idx.(type) {
	case *IndexImpl:
		ix = v.Index.(*index)
	case *index:
		ix = v
	default:
		return nil, errors.New("faiss double: unknown index type")
	}
	ix.use()
	buf := append([]byte(nil), magic...)
	put := func(x uint64) { buf = binary.AppendUvarint(buf, x) }
	put(uint64(ix.d))
	put(uint64(ix.metric))
	if ix.ivf {
		put(1)
	} else {
		put(0)
	}
	put(uint64(ix.nlist))
	put(uint64(ix.nprobe))
	put(uint64(ix.dmap))
	put(uint64(len(ix.cents)))
	for _, c := range ix.cents {
		for _, f := range c {
			buf = binary.LittleEndian.AppendUint32(buf, math.Float32bits(f))
		}
	}
	put(uint64(len(ix.ids)))
	for p, id := range ix.ids {
		buf = binary.AppendVarint(buf, id)
		if ix.ivf {
			put(uint64(ix.assign[p]))
		}
		for _, f := range ix.vecs[p] {
			buf = binary.LittleEndian.AppendUint32(buf, math.Float32bits(f))
		}
	}
	return buf, nil
}

func ReadIndexFromBuffer(buf []byte, ioflags int) (*IndexImpl, error) {
	if err := enter("ReadIndexFromBuffer"); err != nil {
		return nil, err
	}
	if len(buf) < len(magic) || string(buf[:len(magic)]) != string(magic) {
		return nil, errors.New("faiss double: not an index of this engine")
	}
	pos := len(magic)
	bad := errors.New("faiss double: truncated index")
	get := func() (uint64, bool) {
		v, n := binary.Uvarint(buf[pos:])
		if n <= 0 {
			return 0, false
		}
		pos += n
		return v, true
	}
	f32 := func() (float32, bool) {
		if pos+4 > len(buf) {
			return 0, false
		}
		v := math.Float32frombits(binary.LittleEndian.Uint32(buf[pos:]))
		pos += 4
		return v, true
	}
	ix := &index{trained: true}
	var hdr [6]uint64
	for i := range hdr {
		v, ok := get()
		if !ok {
			return nil, bad
		}
		hdr[i] = v
	}
	ix.d, ix.metric, ix.ivf, ix.nlist, ix.nprobe, ix.dmap = int(hdr[0]), int(hdr[1]), hdr[2] == 1, int(hdr[3]), int32(hdr[4]), int(hdr[5])
	nc, ok := get()
	if !ok {
		return nil, bad
	}
	for c := 0; c < int(nc); c++ {
		v := make([]float32, ix.d)
		for i := range v {
			if v[i], ok = f32(); !ok {
				return nil, bad
			}
		}
		ix.cents = append(ix.cents, v)
	}
	n, ok := get()
	if !ok {
		return nil, bad
	}
	for p := 0; p < int(n); p++ {
		id, k := binary.Varint(buf[pos:])
		if k <= 0 {
			return nil, bad
		}
		pos += k
		ix.ids = append(ix.ids, id)
		if ix.ivf {
			a, ok := get()
			if !ok {
				return nil, bad
			}
			ix.assign = append(ix.assign, int(a))
		}
		v := make([]float32, ix.d)
		for i := range v {
			if v[i], ok = f32(); !ok {
				return nil, bad
			}
		}
		ix.vecs = append(ix.vecs, v)
	}
	return register(ix), nil
}
